package dsim

import (
	"fmt"
	"testing"
)

func TestProbe(t *testing.T) {
	for round := 0; round < 3; round++ {
		r := RunBubble(t, func() {
			s := NewSim()
			s.install()
			defer s.uninstall()
			inst, err := s.Boot(1, BaseConfig)
			if err != nil {
				t.Fatal(err)
			}
			tc := s.NewTCPClient(inst, "c1")
			ec := s.NewEmbeddedClient(inst, "e1")
			fmt.Println(tc.DoSync("SET", "a", "1"))
			fmt.Println(ec.DoSync("INCR", "a"))
			fmt.Println(tc.DoSync("GET", "a"))
			fmt.Println(tc.DoSync("LPUSH", "l", "x", "y"))
			fmt.Println(tc.DoSync("LRANGE", "l", "0", "-1"))
			// controlled: three concurrent INCRs
			var out []string
			for i := 0; i < 3; i++ {
				c := s.NewEmbeddedClient(inst, fmt.Sprint("x", i))
				c.Start([]string{"INCR", "a"}, func(r Result) { out = append(out, r.String()) })
			}
			for i := 0; i < 200; i++ {
				p := s.ParkedTasks()
				if len(p) == 0 {
					break
				}
				s.Release(p[(i*7+round)%len(p)])
			}
			fmt.Println(out, tc.DoSync("GET", "a"), s.Stats.Steps)
			fmt.Printf("%+v\n", inst.DB.VerifDump().DBs)
		})
		if r.panicVal != nil {
			t.Fatalf("panic: %v\n%s", r.panicVal, r.stack)
		}
	}
}
