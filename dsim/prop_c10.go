package dsim

// C10 — snapshots are crash-atomic: a crash never loses the last good one.
// C03 — snapshot round trip: restore reproduces the dataset at the snapshot.
//
// One runner, two generators. Oracle (model-free): the dataset dump taken at the instant
// a snapshot's state copy was made is what a restore of that snapshot must serve
// (minus keys whose deadline has passed by the restore instant).

import (
	"fmt"
	"os"
	"path/filepath"
	"sort"
	"strconv"
	"strings"
	"testing"
	"time"
)

func init() {
	register(&PropDef{
		ID: "C10",
		Rule: "plan = dataset writes (all families, several databases) + SAVE operations + crash (kill / power loss with lost or torn un-synced files) or injected EIO/ENOSPC at the k-th file operation of a snapshot (manifest create/write/sync, directory create, state create/write/sync) with 0-2 earlier good snapshots + restart with snapshot restore; " +
			"non-trivial = a restore was checked after at least one snapshot attempt; distinct = hash of (fault kind+site sequence, command-name sequence)",
		Gen:         func(r *Rng, tier string, idx int) *Plan { return genSnap(r, tier, idx, "C10") },
		Run:         func(t *testing.T, p *Plan) *Outcome { return runSnap(t, p, "C10") },
		Real:        []string{"snapshot.Engine.TakeSnapshot/Restore", "getState copy protocol", "SAVE/LASTSAVE handlers", "NewSugarDB restore path", "OS file system (tmpfs)"},
		Stub:        []string{"durability: shadow model fed by FSEvent hooks decides which un-synced files/bytes survive a power loss", "TCP sockets"},
		Assumptions: []string{"ordered-journal disk model (see C02); a created-but-never-synced file may be absent or hold a prefix of what was written"},
	})
	register(&PropDef{
		ID: "C03",
		Rule: "plan = datasets over all value types/databases/deadlines + SAVE or automatic (threshold, interval) snapshots + writers whose keyspace steps are interleaved by the dice with the snapshot's state copy + clock advances + restarts with snapshot restore + LASTSAVE probes; " +
			"non-trivial = a snapshot was taken and a restore or LASTSAVE/auto-trigger check ran; distinct = hash of (interleaving, threshold/interval, command-name sequence)",
		Gen:  func(r *Rng, tier string, idx int) *Plan { return genSnap(r, tier, idx, "C03") },
		Run:  func(t *testing.T, p *Plan) *Outcome { return runSnap(t, p, "C03") },
		Real: []string{"snapshot.Engine (ticker, threshold, TakeSnapshot, Restore)", "getState copy protocol and its busy-wait flags", "all write handlers", "LASTSAVE"},
		Stub: []string{"goroutine scheduler choice", "TCP sockets", "wall clock (synctest fake clock)"},
	})
}

func genSnap(r *Rng, tier string, idx int, prop string) *Plan {
	p := &Plan{Knobs: map[string]int64{}, SKnobs: map[string]string{}}
	p.Profile = "seq"
	p.Knobs["tcpdb"] = Pick(r, dbChoices)
	p.Knobs["embdb"] = Pick(r, dbChoices)
	p.Knobs["callers"] = int64(r.Intn(3))
	g := &GenCfg{Keys: []string{"k1", "k2", "k3", "k4"}, Writes: true, NowMs: 946684800000}
	nmax := 10
	if tier == "thorough" {
		nmax = 30
	}
	writes := func(n int) {
		for i := 0; i < n; i++ {
			if r.Chance(0.07) {
				p.Ops = append(p.Ops, Op{Kind: "advance", N: int64(Pick(r, []int{1, 50, 999, 1000, 5000, 60000, 200000}))})
			}
			p.Ops = append(p.Ops, Op{C: r.Intn(2), Args: g.Cmd(r)})
		}
	}
	if prop == "C03" && idx%3 == 0 {
		// automatic snapshots: threshold/interval drawn per run; counts overshoot the threshold on purpose
		p.Profile = "auto"
		p.Knobs["threshold"] = int64(r.Range(1, 8))
		p.Knobs["interval_ms"] = int64(Pick(r, []int{50, 200, 1000, 5000}))
		n := int(p.Knobs["threshold"]) + r.Range(0, 4)
		g2 := &GenCfg{Keys: g.Keys, Only: map[string]bool{"SET": true, "RPUSH": true, "HSET": true, "SADD": true, "ZADD": true, "MSET": true, "INCR": true}, NowMs: g.NowMs}
		for i := 0; i < n; i++ {
			p.Ops = append(p.Ops, Op{C: r.Intn(2), Args: g2.Cmd(r)})
			if r.Chance(0.2) {
				p.Ops = append(p.Ops, Op{Kind: "advance", N: int64(r.Range(1, int(p.Knobs["interval_ms"])-1))})
			}
		}
		if r.Chance(0.5) {
			// a transient I/O error during the automatic snapshot: once it is gone the snapshot must still be taken
			p.Ops = append(p.Ops, Op{Kind: "auto-fault", N: int64(r.Intn(9)), S: Pick(r, []string{"eio", "enospc"})})
		}
		p.Ops = append(p.Ops, Op{Kind: "expect-auto"})
		if r.Chance(0.3) {
			p.Ops = append(p.Ops, Op{Kind: "lastsave"})
		}
		p.Ops = append(p.Ops, Op{Kind: "restart", S: "kill"})
		p.Dice = drawDice(r, 32)
		return p
	}
	if prop == "C03" && idx%3 == 1 {
		p.Profile = "conc" // writers interleaved with the state copy
	}
	snaps := r.Range(1, 3)
	namesake := r.Chance(0.3)
	if namesake {
		// the same key name in two logical databases, with a deadline in one of them only that passes before the
		// snapshot or between snapshot and restore: what happens to a key of one database must not reach its namesake
		p.Knobs["callers"] = 2
		for p.Knobs["tcpdb"] == p.Knobs["embdb"] {
			p.Knobs["embdb"] = Pick(r, dbChoices)
		}
	}
	for sidx := 0; sidx < snaps; sidx++ {
		writes(r.Range(1, nmax))
		if namesake {
			k := Pick(r, g.Keys)
			vol := r.Intn(2)
			p.Ops = append(p.Ops, Op{C: vol, Args: []string{"SET", k, "volatile-" + k}}, Op{C: 1 - vol, Args: []string{"SET", k, "persistent-" + k}},
				Op{C: vol, Args: []string{"PEXPIRE", k, "40"}})
			if r.Bool() {
				p.Ops = append(p.Ops, Op{Kind: "advance", N: 50}) // expired (and uncollected) when the snapshot is taken
			}
		}
		if sidx > 0 && r.Chance(0.25) {
			// everything is deleted: the next snapshot is that of an empty keyspace
			p.Ops = append(p.Ops, Op{C: r.Intn(2), Args: []string{"FLUSHALL"}})
		}
		if sidx > 0 && r.Chance(map[string]float64{"C10": 0.3, "C03": 0.15}[prop]) {
			p.Ops = append(p.Ops, Op{Kind: "stepback", N: int64(Pick(r, []int{1, 7, 500, 3000, 100000, 10000000}))})
		}
		if prop == "C10" && r.Chance(0.6) {
			mode := Pick(r, []string{"kill", "kill", "power", "power", "eio", "enospc", "oskill", "oskill"})
			p.Ops = append(p.Ops, Op{Kind: "crash", N: int64(r.Intn(11)), S: mode})
		}
		p.Ops = append(p.Ops, Op{Kind: "save"})
		if p.Profile == "conc" {
			// writers released inside the snapshot
			for i, n := 0, r.Range(1, 4); i < n; i++ {
				p.Ops = append(p.Ops, Op{Kind: "concwrite", C: r.Intn(2), Args: g.Cmd(r)})
			}
			p.Ops = append(p.Ops, Op{Kind: "join"})
		}
		if namesake && r.Bool() {
			p.Ops = append(p.Ops, Op{Kind: "advance", N: 60}) // the deadline passes between snapshot and restore
		}
		if r.Chance(0.2) {
			p.Ops = append(p.Ops, Op{Kind: "save"}) // nothing new
		}
		if r.Chance(0.3) {
			p.Ops = append(p.Ops, Op{Kind: "lastsave"})
		}
		if r.Chance(0.5) {
			if r.Chance(0.4) {
				writes(r.Range(1, 4)) // writes after the snapshot are not part of it
			}
			if r.Chance(0.3) {
				p.Ops = append(p.Ops, Op{Kind: "advance", N: int64(Pick(r, []int{10, 1000, 30000, 100000}))})
			}
			p.Ops = append(p.Ops, Op{Kind: "restart", S: Pick(r, []string{"clean", "kill", "power"})})
			p.Ops = append(p.Ops, Op{Kind: "lastsave"})
		}
	}
	p.Ops = append(p.Ops, Op{Kind: "restart", S: Pick(r, []string{"clean", "kill", "power"})})
	p.Dice = drawDice(r, 128)
	return p
}

type snapRec struct {
	data   map[string]string
	atMs   int64 // clock when TakeSnapshot started
	lossy  bool
	dbs    string              // indices of the databases that existed (empty ones included) when a SAVE recorded this
	window []map[string]string // conc: every state the server passed through while the copy was being made
}

type snapRun struct {
	t         *testing.T
	p         *Plan
	prop      string
	s         *Sim
	dice      *Dice
	o         *Outcome
	root      string
	gen       int
	inst      *Instance
	disk      *Disk
	tcp, emb  *Client
	tcpdb     int64
	embdb     int64
	good      []snapRec // completed snapshots, oldest first (survive restarts)
	inflight  *snapRec  // snapshot attempt that was interrupted by a crash
	doneSeen  int
	names     []string
	checks    int
	skipped   int
	lastSave  int64 // expected LASTSAVE (ms), 0 = none
	faultLog  []string
	disk0site string
	attempts  map[int64]bool // clock readings (ms) at which a snapshot was attempted
	stepped   bool           // the clock was stepped backwards in this run
	alts      []snapRec
	lastCopy  *snapRec
	writesOK  int
	sinceSnap int
	errSite   string
}

func (a *snapRun) fail(sig, detail string) {
	if a.o.Sig == "" {
		a.o.Sig, a.o.Detail = a.prop+"/"+sig, detail
	}
}

func (a *snapRun) boot(dir string) bool {
	a.gen++
	cfg := BaseConfig
	cfg.DataDir = dir
	cfg.RestoreSnapshot = true
	cfg.RestoreAOF = false
	cfg.AOFSyncStrategy = "no"
	if a.p.Profile == "auto" {
		cfg.SnapShotThreshold = uint64(a.p.K("threshold"))
		cfg.SnapshotInterval = time.Duration(a.p.K("interval_ms")) * time.Millisecond
	}
	id := a.gen
	a.disk = a.s.NewDisk(dir, id, a.dice)
	disk := a.disk
	a.s.WrapFile = nil // the AOF files are not this property's business
	a.s.OnFault = func(site string, t *Task) error {
		if t != nil && t.Inst != disk.Inst {
			return nil
		}
		return disk.opportunity(site)
	}
	a.s.OnFS = func(kind, path string, b []byte, t *Task) { disk.FSEvent(kind, path, b) }
	a.s.OnYieldOpp = func(site string, t *Task) {
		if t != nil && t.Inst == disk.Inst && strings.HasPrefix(site, "getState") {
			_ = disk.opportunity(site)
		}
	}
	a.s.OnNote = func(ev string, t *Task) {
		switch ev {
		case "statecopy.begin":
			// the instant the state copy starts: what a snapshot taken now must contain
			cp := a.dump()
			a.lastCopy = &snapRec{data: cp, atMs: nowMs(), lossy: lossy(cp)}
		case "snapshot.done":
			a.doneSeen++
			a.sinceSnap = 0
			if a.p.Profile == "auto" && a.lastCopy != nil {
				a.good = append(a.good, *a.lastCopy)
				a.lastSave = a.lastCopy.atMs
			}
		}
	}
	inst, err := a.s.Boot(id, cfg)
	harnessEnvCheck(err)
	if err != nil || inst.Panic != "" {
		a.fail("restore-fails", fmt.Sprintf("start-up on the recovered directory failed: %v %s", err, inst.Panic))
		return false
	}
	a.inst = inst
	a.tcp = a.s.NewTCPClient(inst, fmt.Sprintf("g%dt", id))
	a.emb = a.s.NewEmbeddedClient(inst, fmt.Sprintf("g%de", id))
	if a.tcpdb != 0 {
		a.tcp.DoSync("SELECT", strconv.FormatInt(a.tcpdb, 10))
	}
	if a.embdb != 0 {
		_ = inst.DB.SelectDB(int(a.embdb))
	}
	return true
}

func (a *snapRun) dump() map[string]string {
	m := DataMap(a.inst.DB.VerifDump(), false)
	if a.stepped {
		// a snapshot does not hold keys whose deadline has passed when it is taken. With a clock that only moves
		// forward, stripping them at restore time is enough; once it was stepped back they are stripped here too.
		m = stripExpiredMap(m, nowMs()-1)
	}
	return m
}

func stripMap(m map[string]string, now int64) map[string]string {
	out := map[string]string{}
	for k, v := range m {
		if i := strings.LastIndex(v, " @"); i >= 0 {
			if ms, err := strconv.ParseInt(v[i+2:], 10, 64); err == nil && ms <= now {
				continue
			}
		}
		out[k] = v
	}
	return out
}

func (a *snapRun) client(op Op) *Client {
	switch a.p.K("callers") {
	case 0:
		return a.tcp
	case 1:
		return a.emb
	}
	if op.C%2 == 0 {
		return a.tcp
	}
	return a.emb
}

func (a *snapRun) nextImage(from string) string {
	dst := filepath.Join(a.root, fmt.Sprintf("gen%d", a.gen))
	_ = os.RemoveAll(dst)
	_ = os.Rename(from, dst)
	return dst
}

// checkRestore boots on image and compares with the admissible snapshots.
func (a *snapRun) checkRestore(image, how string) bool {
	if !a.boot(image) {
		return false
	}
	a.checks++
	a.o.Trivial = false
	now := nowMs()
	got := StripExpired(a.inst.DB.VerifDump(), now, false)
	// admissible: the last completed snapshot; plus the interrupted attempt, if any
	var cands []snapRec
	if len(a.good) > 0 {
		cands = append(cands, a.good[len(a.good)-1])
	} else {
		cands = append(cands, snapRec{data: map[string]string{}})
	}
	if a.inflight != nil {
		cands = append(cands, *a.inflight)
	}
	matched := -1
	for i, c := range cands {
		if matched >= 0 {
			break // the last completed snapshot wins when both explain the restored dataset
		}
		if mapsEqual(stripMap(c.data, now), got) {
			matched = i
		}
		for _, w := range c.window {
			if mapsEqual(stripMap(w, now), got) {
				matched = i
			}
		}
	}
	infl := a.inflight
	a.inflight = nil
	// interrupted attempts that are indistinguishable by data from what was restored stay candidates for LASTSAVE
	var keep []snapRec
	for _, c := range a.alts {
		if mapsEqual(stripMap(c.data, now), got) {
			keep = append(keep, c)
		}
	}
	if infl != nil && matched == 0 && mapsEqual(stripMap(infl.data, now), got) {
		keep = append(keep, *infl)
	}
	a.alts = keep
	if matched >= 0 {
		if matched == 1 && infl != nil {
			a.good = append(a.good, *infl) // the interrupted snapshot turned out complete
		}
		if len(a.good) > 0 {
			a.lastSave = a.good[len(a.good)-1].atMs
		} else {
			a.lastSave = 0
		}
		return true
	}
	want := cands[0]
	diff := DiffData(got, stripMap(want.data, now), "restored", "last-good-snapshot", 5)
	// known root cause lenses
	lossyInvolved := false
	for _, c := range cands {
		if c.lossy {
			lossyInvolved = true
		}
		for _, w := range c.window {
			if lossy(w) {
				lossyInvolved = true
			}
		}
	}
	if lossyInvolved {
		for _, c := range cands {
			for _, st := range append([]map[string]string{c.data}, c.window...) {
				if projEqual(got, stripMap(st, now)) {
					a.fail("retyped-by-snapshot", fmt.Sprintf("%s: restored dataset equals a snapshot only up to the type loss of the JSON encoding: %s", how, DiffData(got, stripMap(st, now), "restored", "snapshot", 5)))
					return false
				}
			}
		}
	}
	kind := "restore-partial"
	switch {
	case len(got) == 0:
		kind = "restore-empty"
	case len(a.good) >= 2 && mapsEqual(stripMap(a.good[len(a.good)-2].data, now), got):
		kind = "older-snapshot"
	}
	site := "none"
	if infl != nil {
		site = a.disk0site
	} else if a.errSite != "" {
		site = "error@" + a.errSite
	}
	a.fail(kind+"/"+site, fmt.Sprintf("%s: restore after a snapshot attempt interrupted at [%s] serves neither the last completed snapshot nor the new one (%d completed snapshots): %s", how, site, len(a.good), diff))
	return false
}

func projEqual(a, b map[string]string) bool {
	if len(a) != len(b) {
		return false
	}
	for k, v := range a {
		w, ok := b[k]
		if !ok || jsonProjection(v) != jsonProjection(w) {
			return false
		}
	}
	return true
}

func runSnap(t *testing.T, p *Plan, prop string) *Outcome {
	o := &Outcome{Trivial: true}
	a := &snapRun{t: t, p: p, prop: prop, o: o}
	a.root = filepath.Join(scratchDir(), fmt.Sprintf("r%d", runCounter.Add(1)))
	_ = os.MkdirAll(a.root, 0o755)
	if os.Getenv("DSIM_KEEP") == "" {
		defer os.RemoveAll(a.root)
	} else {
		fmt.Println("KEEP", a.root)
	}
	br := RunBubble(t, func() {
		s := NewSim()
		s.logOn = true
		a.s = s
		s.install()
		defer s.uninstall()
		a.dice = p.NewDice()
		a.tcpdb, a.embdb = p.K("tcpdb"), p.K("embdb")
		dir := filepath.Join(a.root, "gen0")
		_ = os.MkdirAll(dir, 0o755)
		if !a.boot(dir) {
			return
		}
		a.run()
		o.Stats = s.Stats
		o.Log = s.Log
		o.Sched = s.schedHash
	})
	if br.panicVal != nil {
		o.Sig = prop + "/panic/" + topRepoFrame(br.stack)
		o.Detail = fmt.Sprintf("%v\n%s", br.panicVal, br.stack)
	}
	o.Skipped = a.skipped
	o.Class = p.Profile + "|" + strings.Join(a.names, ",")
	o.Sample = map[string]any{"checks": a.checks, "snapshots_completed": len(a.good), "faults": a.faultLog}
	return o
}

func (a *snapRun) lossyAvoid(args []string) bool {
	if !Avoiding(a.p, a.prop+"/retyped-by-snapshot") {
		return false
	}
	name := strings.ToUpper(args[0])
	if sp := specByName[name]; sp != nil && (sp.Family == "list" || sp.Family == "set" || sp.Family == "zset") {
		return true
	}
	switch name {
	case "HINCRBY", "HINCRBYFLOAT", "INCRBYFLOAT":
		return true
	case "SET", "MSET", "APPEND", "HSET", "HSETNX":
		for _, x := range args[2:] {
			if _, err := strconv.ParseFloat(strings.TrimSpace(x), 64); err == nil {
				return true
			}
		}
	}
	return false
}

func (a *snapRun) run() {
	p := a.p
	var arm *Op
	for _, op := range p.Ops {
		if op.Kind == "stepback" {
			a.stepped = true // from the start: what the first snapshots hold matters once the clock has gone back
		}
	}
	for i := 0; i < len(p.Ops) && a.o.Sig == ""; i++ {
		op := p.Ops[i]
		switch op.Kind {
		case "":
			if a.lossyAvoid(op.Args) {
				a.skipped++
				continue
			}
			a.names = append(a.names, strings.ToUpper(op.Args[0]))
			r := a.client(op).DoSync(op.Args...)
			if !r.IsError() && r.Panic == "" {
				a.writesOK++
				a.sinceSnap++
			}
			if r.Panic != "" {
				a.fail("panic/"+topRepoFrame(r.Panic), fmt.Sprintf("%q: %s", op.Args, r.Panic))
			}
		case "advance":
			a.s.AdvanceSync(time.Duration(op.N) * time.Millisecond)
			a.names = append(a.names, "adv")
		case "stepback":
			// the wall clock is corrected backwards (NTP, migration): snapshots taken afterwards carry earlier times
			a.s.StepClock(-time.Duration(op.N) * time.Millisecond)
			a.stepped = true
			a.names = append(a.names, "clock-step")
		case "crash":
			c := op
			arm = &c
		case "save":
			a.save(arm, p.Ops[i+1:])
			arm = nil
		case "concwrite", "join":
			// consumed by save() in the conc profile
		case "lastsave":
			r := a.client(op).DoSync("LASTSAVE")
			a.names = append(a.names, "LASTSAVE")
			a.checks++
			a.pinAlt(r)
			want := a.lastSave
			if want == 0 && (r.IsError() || (r.Reply.Kind == RInt && r.Reply.Int == 0)) {
				break // no snapshot yet: an error or 0 are both fine
			}
			if r.IsError() || r.Reply.Kind != RInt {
				a.fail("lastsave/reply", fmt.Sprintf("LASTSAVE did not return the time of the last snapshot (%d): %s", want, r.String()))
				break
			}
			got := r.Reply.Int
			// the handler may report seconds or milliseconds; accept either unit of the right instant
			if !a.lastSaveIs(got) {
				a.fail("lastsave/wrong", fmt.Sprintf("LASTSAVE = %d but the snapshot last taken/restored was made at %d ms (%d completed)", got, want, len(a.good)))
			}
		case "auto-fault":
			a.disk.Arm(int(op.N), op.S, "snap.")
			a.names = append(a.names, "auto-fault:"+op.S)
		case "expect-auto":
			// bounded liveness: one more interval after the threshold-th write a snapshot must exist
			before := a.doneSeen
			due := int64(a.sinceSnap) >= p.K("threshold")
			a.s.AdvanceSync(time.Duration(p.K("interval_ms")) * time.Millisecond)
			a.s.AdvanceSync(time.Duration(p.K("interval_ms")) * time.Millisecond)
			if a.disk.Fired {
				// the injected fault has fired (one attempt failed); faults stop here: two more intervals
				a.faultLog = append(a.faultLog, a.disk.Mode+"@"+a.disk.FiredAt)
				a.disk.Disarm()
				a.s.AdvanceSync(time.Duration(p.K("interval_ms")) * time.Millisecond)
				a.s.AdvanceSync(time.Duration(p.K("interval_ms")) * time.Millisecond)
			}
			a.disk.Disarm()
			a.checks++
			a.o.Trivial = false
			if !due {
				break
			}
			if int64(a.sinceSnap) < p.K("threshold") {
				break // fewer successful write commands than the threshold since the last snapshot: nothing is due
			}
			if n := len(a.good); n > 0 && a.doneSeen == before && mapsEqual(StripExpired(a.inst.DB.VerifDump(), nowMs(), false), stripExpiredMap(a.good[n-1].data, nowMs())) {
				break // the writes left the dataset as the last snapshot holds it: "nothing new to snapshot" is a legitimate outcome
			}
			if a.doneSeen == before {
				what := "no-auto-snapshot"
				if len(a.faultLog) > 0 {
					what = "no-auto-snapshot-after-fault"
				}
				a.fail(what, fmt.Sprintf("threshold=%d interval=%dms: %d write commands succeeded since the last snapshot and two more intervals elapsed (faults injected before that: %v), but no automatic snapshot was taken", p.K("threshold"), p.K("interval_ms"), a.sinceSnap, a.faultLog))
			}
		case "restart":
			a.names = append(a.names, "restart:"+op.S)
			if op.S == "clean" {
				a.inst.DB.ShutDown()
				a.s.Settle()
				img := filepath.Join(a.root, "clean.img")
				_ = os.RemoveAll(img)
				copyTree(a.disk.Dir, img)
				a.s.KillInstance(a.inst.ID)
				a.disk.CloseAll()
				if !a.checkRestore(a.nextImage(img), "clean") {
					return
				}
			} else {
				a.disk.CrashNow(op.S)
				if !a.checkRestore(a.nextImage(a.disk.Image), op.S) {
					return
				}
			}
		}
	}
}

func (a *snapRun) save(arm *Op, rest []Op) {
	for a.attempts[nowMs()] {
		// snapshot directories are named after the millisecond: two attempts in the same millisecond
		// share one directory. The harness does not explore that corner (see DESIGN.md §10) - neither
		// directly nor by stepping the clock back onto the millisecond of an earlier attempt.
		a.s.AdvanceSync(time.Millisecond)
	}
	if a.attempts == nil {
		a.attempts = map[int64]bool{}
	}
	a.attempts[nowMs()] = true
	state := a.dump()
	at := nowMs()
	before := a.doneSeen
	a.names = append(a.names, "SAVE")
	rec := snapRec{data: state, atMs: at, lossy: lossy(state)}
	var dbIdx []int
	for d := range a.inst.DB.VerifDump().DBs {
		dbIdx = append(dbIdx, d)
	}
	sort.Ints(dbIdx)
	rec.dbs = fmt.Sprint(dbIdx)
	// "finds nothing new": the dataset is what the last completed snapshot holds (through the snapshot encoding's own
	// projection), no deadline is anywhere near either instant, nothing was interrupted since - the attempt must
	// not take a snapshot, and the last-save time stays
	expectSkip := false
	if n := len(a.good); n > 0 && arm == nil && len(a.alts) == 0 && a.p.Profile == "seq" && a.inflight == nil {
		pj := func(m map[string]string) map[string]string {
			out := map[string]string{}
			for k, v := range m {
				out[k] = jsonProjection(v)
			}
			return out
		}
		calm := func(m map[string]string) bool {
			for _, v := range m {
				if i := strings.LastIndex(v, " @"); i >= 0 {
					if ms, err := strconv.ParseInt(v[i+2:], 10, 64); err == nil && ms <= max(at, a.good[n-1].atMs)+1000 {
						return false
					}
				}
			}
			return true
		}
		// (the snapshot also records which databases exist, empty ones included: same set required)
		expectSkip = calm(state) && calm(a.good[n-1].data) && mapsEqual(pj(state), pj(a.good[n-1].data)) && rec.dbs == a.good[n-1].dbs
	}
	if arm != nil {
		a.disk.Arm(int(arm.N), arm.S, "")
		a.names = append(a.names, "arm:"+arm.S)
	}
	if a.p.Profile == "conc" {
		a.saveConc(&rec, rest)
	} else {
		r := a.emb.DoSync("SAVE")
		if r.Panic != "" {
			a.fail("panic/"+topRepoFrame(r.Panic), r.Panic)
			return
		}
	}
	a.disk.Disarm()
	if a.disk.Fired {
		a.faultLog = append(a.faultLog, a.disk.Mode+"@"+a.disk.FiredAt)
		a.disk0site = a.disk.FiredAt
	}
	if a.disk.Fired && (a.disk.Mode == "kill" || a.disk.Mode == "power" || a.disk.Mode == "oskill") {
		a.inflight = &rec
		a.s.KillInstance(a.inst.ID)
		a.checkRestore(a.nextImage(a.disk.Image), a.disk.Mode+"@"+a.disk.FiredAt)
		return
	}
	if a.doneSeen > before && expectSkip && a.o.Sig == "" {
		a.fail("nothing-new/snapshotted", fmt.Sprintf("SAVE at %d found the dataset exactly as the snapshot of %d holds it (%d keys) and nevertheless took a new snapshot and moved the last-save time", at, a.good[len(a.good)-1].atMs, len(state)))
		return
	}
	if a.doneSeen > before {
		a.alts = nil
		a.good = append(a.good, rec)
		a.lastSave = at
		a.errSite = ""
		return
	}
	if !a.disk.Fired && a.p.Profile != "conc" && a.o.Sig == "" {
		// no fault was injected and no snapshot was taken: legitimate only if there is nothing new, i.e. the
		// dataset is what the last snapshot holds (compared through the snapshot encoding's own projection, which
		// cannot tell some value types apart)
		proj := func(m map[string]string) map[string]string {
			out := map[string]string{}
			for k, v := range stripExpiredMap(m, nowMs()) {
				out[k] = jsonProjection(v)
			}
			return out
		}
		var last map[string]string
		if n := len(a.good); n > 0 {
			last = a.good[n-1].data
		}
		if (len(a.good) > 0 || len(a.alts) == 0) && len(a.alts) == 0 && !mapsEqual(proj(state), proj(last)) && (len(a.good) > 0 || len(proj(state)) > 0) {
			a.fail("save-skipped", fmt.Sprintf("SAVE took no snapshot although the dataset differs from what the last snapshot holds (%d snapshots so far): %s", len(a.good), DiffData(proj(state), proj(last), "now", "last snapshot", 4)))
			return
		}
	}
	if a.disk.Fired {
		// the attempt failed with an injected error: the previous snapshot and LASTSAVE must be untouched
		a.errSite = a.disk.FiredAt
		r := a.emb.DoSync("LASTSAVE")
		a.pinAlt(r)
		if !r.IsError() && r.Reply.Kind == RInt && !a.lastSaveIs(r.Reply.Int) {
			a.fail("lastsave-moved/"+a.disk.FiredAt, fmt.Sprintf("a snapshot attempt failed with %s at %s but LASTSAVE moved from %d to %d", a.disk.Mode, a.disk.FiredAt, a.lastSave, r.Reply.Int))
		}
	}
}

// saveConc runs SAVE and the following "concwrite" operations as concurrently scheduled tasks.
func (a *snapRun) saveConc(rec *snapRec, rest []Op) {
	s := a.s
	var results []Result
	nt := 0
	s.sites = nil
	saveClient := s.NewEmbeddedClient(a.inst, "saver")
	saveClient.Start([]string{"SAVE"}, func(r Result) { results = append(results, r) })
	nt++
	for _, op := range rest {
		if op.Kind != "concwrite" {
			break
		}
		if a.lossyAvoid(op.Args) {
			a.skipped++
			continue
		}
		// writers work in different logical databases (the embedded caller's and the TCP connections'), so that a
		// state copy that is not ONE instant across databases shows
		var c *Client
		if (op.C+nt)%2 == 0 {
			c = s.NewEmbeddedClient(a.inst, fmt.Sprintf("w%d", nt))
		} else {
			wasPass := s.passAll.Load()
			s.passAll.Store(true)
			c = s.NewTCPClient(a.inst, fmt.Sprintf("w%d", nt))
			if db := a.p.K("tcpdb"); db != 0 {
				c.DoSync("SELECT", strconv.FormatInt(db, 10))
			}
			s.passAll.Store(wasPass)
		}
		a.names = append(a.names, "||"+strings.ToUpper(op.Args[0]))
		c.Start(op.Args, func(r Result) { results = append(results, r) })
		nt++
	}
	before := a.doneSeen
	rec.window = append(rec.window, a.dump())
	for step := 0; step < 2000; step++ {
		parked := s.ParkedTasks()
		if len(parked) == 0 {
			break
		}
		tk, stuck := PickFair(parked, a.dice.Next(len(parked)), 300)
		s.noteChoice(len(parked), tk.Site)
		if stuck {
			a.fail("livelock/"+tk.Site, fmt.Sprintf("task t%d spun %d times at %s", tk.ID, tk.Spins, tk.Site))
			return
		}
		s.Release(tk)
		if _, mutating, _, _ := a.inst.DB.VerifFlags(); a.doneSeen == before && !mutating {
			// "as of one instant": an instant between two commands. While a write command is between its first and
			// its last keyspace step the dataset is not one a snapshot may hold (commands are atomic); the state copy
			// waits for such commands and holds new ones back, so with it in place no such state can be copied.
			rec.window = append(rec.window, a.dump())
		}
	}
	if s.Overlap {
		s.Probe("copy-overlaps-mutation")
	}
}

// lastSaveIs: got is the time of the snapshot last taken or restored, in seconds or milliseconds (the handler may
// report either unit). Once the clock has been stepped backwards "the time of the snapshot" has two defensible
// readings - the clock at that instant, or that reading kept from going back behind earlier snapshots - and both
// are accepted; with a clock that only moves forward they coincide.
func (a *snapRun) lastSaveIs(got int64) bool {
	want := a.lastSave
	if got == want || got == want/1000 {
		return true
	}
	if a.stepped && want != 0 {
		m := want
		for _, g := range a.good {
			m = max(m, g.atMs)
		}
		return got == m || got == m/1000
	}
	return false
}

// pinAlt: a LASTSAVE reply that names one of the ambiguous interrupted snapshots settles which one is on disk.
func (a *snapRun) pinAlt(r Result) {
	if r.IsError() || r.Reply.Kind != RInt {
		return
	}
	for _, c := range a.alts {
		if c.atMs == r.Reply.Int {
			a.good = append(a.good, c)
			a.lastSave = c.atMs
			a.alts = nil
			return
		}
	}
}

// stripExpiredMap removes the entries of a flattened dataset whose deadline is <= nowMs.
func stripExpiredMap(m map[string]string, now int64) map[string]string {
	out := map[string]string{}
	for k, v := range m {
		if i := strings.LastIndex(v, " @"); i >= 0 {
			if ms, err := strconv.ParseInt(v[i+2:], 10, 64); err == nil && ms <= now {
				continue
			}
		}
		out[k] = v
	}
	return out
}
