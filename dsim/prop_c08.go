package dsim

// C08 — max-memory policy: who may be evicted, in what order, and when.

import (
	"fmt"
	"sort"
	"strconv"
	"strings"
	"sync"
	"testing"
	"time"
)

func init() {
	register(&PropDef{
		ID: "C08",
		Rule: "plan = policy (all seven) x memory limit (fits 3-12 of the workload's keys) x access history (SET with/without deadline, GET, TOUCH, EXPIRE, PERSIST, DEL, FLUSHDB over 1-2 databases) with the fake clock advanced between accesses so recency is strictly ordered; " +
			"non-trivial = usage reached the limit at least once; distinct = hash of (policy, limit class, operation sequence with evict/refuse outcome)",
		Gen:  genC08,
		Run:  runC08,
		Real: []string{"setValues limit check", "updateKeysInCache/adjustMemoryUsage (async bookkeeping goroutines)", "LRU/LFU heaps", "volatile-key index", "memUsed accounting"},
		Stub: []string{"goroutine scheduler choice (bookkeeping goroutines run to quiescence after each command)", "wall clock", "TCP sockets"},
		Assumptions: []string{
			"the usage figure is the implementation's own MemoryUsed (its relation to the dataset is C19's business)",
			"an access is a command that reads or writes the key (documentation); ties in recency/frequency may be broken either way",
		},
	})
}

var c08Policies = []string{"noeviction", "allkeys-lru", "allkeys-lfu", "volatile-lru", "volatile-lfu", "allkeys-random", "volatile-random"}

func genC08(r *Rng, tier string, idx int) *Plan {
	p := &Plan{Knobs: map[string]int64{}, SKnobs: map[string]string{}}
	if idx%4 == 3 {
		return genC08Conc(r, tier, p)
	}
	p.SKnobs["policy"] = c08Policies[idx%len(c08Policies)]
	p.Profile = p.SKnobs["policy"]
	p.Knobs["fit"] = int64(r.Range(3, 12))
	p.Knobs["dbs"] = int64(r.Range(1, 2))
	nkeys := int(p.Knobs["fit"]) + r.Range(1, 6)
	n := r.Range(10, 40)
	if tier == "thorough" {
		n = r.Range(10, 120)
	}
	for i := 0; i < n; i++ {
		k := "k" + strconv.Itoa(r.Intn(nkeys))
		db := int64(r.Intn(int(p.Knobs["dbs"])))
		switch x := r.Intn(100); {
		case x < 40:
			a := []string{"SET", k, "val-" + strings.Repeat("x", r.Range(0, 12))}
			if r.Chance(0.45) {
				a = append(a, "EX", strconv.Itoa(r.Range(1000, 5000)))
			}
			p.Ops = append(p.Ops, Op{Args: a, N: db})
		case x < 65:
			p.Ops = append(p.Ops, Op{Args: []string{"GET", k}, N: db})
		case x < 75:
			p.Ops = append(p.Ops, Op{Args: []string{"TOUCH", k}, N: db})
		case x < 82:
			p.Ops = append(p.Ops, Op{Args: []string{"EXPIRE", k, strconv.Itoa(r.Range(1000, 5000))}, N: db})
		case x < 87:
			p.Ops = append(p.Ops, Op{Args: []string{"PERSIST", k}, N: db})
		case x < 95:
			p.Ops = append(p.Ops, Op{Args: []string{"DEL", k}, N: db})
		case x < 97:
			p.Ops = append(p.Ops, Op{Args: []string{"FLUSHDB"}, N: db})
		default:
			p.Ops = append(p.Ops, Op{Args: []string{"HSET", k, "f", "v"}, N: db})
		}
	}
	return p
}

// Access bookkeeping of the model. Whether PERSIST counts as an access, and whether a command that
// reads and then writes a key (HSET) counts once or twice, is not defined by the documentation:
// the model keeps ranges and only flags an order that no reading of "access" can explain.
type c08Acc struct {
	lastLo, lastHi   int64 // clock (ms) of last access: surely-an-access / possibly-an-access
	countLo, countHi int
}

func runC08(t *testing.T, p *Plan) *Outcome {
	if p.Profile == "conc" {
		return runC08Conc(t, p)
	}
	o := &Outcome{Trivial: true}
	var class []string
	fail := func(sig, detail string) {
		if o.Sig == "" {
			o.Sig, o.Detail = "C08/"+p.SK("policy")+"/"+sig, detail
		}
	}
	fail2 := func(sig, detail string) { // policy-independent signature
		if o.Sig == "" {
			o.Sig, o.Detail = "C08/"+sig, detail
		}
	}
	br := RunBubble(t, func() {
		s := NewSim()
		s.logOn = true
		s.install()
		defer s.uninstall()
		policy := p.SK("policy")
		// measure what one typical key costs on a scratch instance, to turn "fit" into a byte limit
		probe, err := s.Boot(99, BaseConfig)
		if err != nil {
			fail("boot-failed", fmt.Sprint(err))
			return
		}
		pc := s.NewEmbeddedClient(probe, "p")
		pc.DoSync("SET", "k0", "val-xxxxxx")
		per := probe.DB.VerifDump().DBs[0]["k0"].Mem
		s.KillInstance(99)
		if per <= 0 {
			fail("harness/per-key-size", "could not measure a key's size")
			return
		}
		cfg := BaseConfig
		cfg.EvictionPolicy = policy
		cfg.MaxMemory = uint64(per * p.K("fit"))
		cfg.EvictionInterval = time.Hour // the expiry sampler is C04's business
		inst, err := s.Boot(1, cfg)
		if err != nil {
			fail("boot-failed", fmt.Sprint(err))
			return
		}
		limit := int64(cfg.MaxMemory)
		clients := []*Client{s.NewTCPClient(inst, "d0")}
		if p.K("dbs") > 1 {
			c1 := s.NewTCPClient(inst, "d1")
			c1.DoSync("SELECT", "1")
			clients = append(clients, c1)
		}
		type evNote struct {
			db   int
			key  string
			used int64
		}
		var notes []evNote
		var nmu sync.Mutex
		s.OnEvict = func(db int, key string, used int64, lim uint64) {
			nmu.Lock()
			notes = append(notes, evNote{db, key, used})
			nmu.Unlock()
		}
		acc := map[string]*c08Acc{} // "db/key"
		volatile := strings.HasPrefix(policy, "volatile")
		for i, op := range p.Ops {
			if o.Sig != "" {
				break
			}
			s.AdvanceSync(3 * time.Millisecond) // strictly ordered access times
			db := int(op.N) % len(clients)
			before := inst.DB.VerifDump()
			notes = notes[:0]
			name := strings.ToUpper(op.Args[0])
			r := clients[db].DoSync(op.Args...)
			if r.Panic != "" {
				fail("panic/"+name, r.Panic)
				break
			}
			after := inst.DB.VerifDump()
			now := time.Now().UnixMilli()
			dk := func(k string) string { return strconv.Itoa(db) + "/" + k }
			// ---- what the command itself may remove/add
			mayRemove := map[string]bool{}
			written := ""
			switch name {
			case "DEL":
				mayRemove[dk(op.Args[1])] = true
			case "FLUSHDB":
				for k := range before.DBs[db] {
					mayRemove[dk(k)] = true
				}
			case "SET", "HSET":
				written = dk(op.Args[1])
			}
			// ---- evicted = keys that vanished without the command asking for it
			var evicted []string
			for d, data := range before.DBs {
				for k := range data {
					id := strconv.Itoa(d) + "/" + k
					if _, still := after.DBs[d][k]; !still && !mayRemove[id] {
						evicted = append(evicted, id)
					}
				}
			}
			refused := (name == "SET" || name == "HSET") && r.IsError()
			if written != "" && !refused {
				// the access of this very command counts before any eviction it triggers
				if acc[written] == nil {
					acc[written] = &c08Acc{}
				}
				acc[written].lastLo, acc[written].lastHi = time.Now().UnixMilli(), time.Now().UnixMilli()
				if _, ok := after.DBs[db][op.Args[1]]; !ok {
					if _, was := before.DBs[db][op.Args[1]]; !was {
						evicted = append(evicted, written) // created and evicted within the same command
					}
				}
			}
			sort.Strings(evicted)
			outcome := "ok"
			if len(evicted) > 0 {
				outcome = fmt.Sprintf("evict%d", len(evicted))
			} else if refused {
				outcome = "refused"
			}
			class = append(class, name+":"+outcome)
			if before.MemUsed >= limit || after.MemUsed >= limit || len(evicted) > 0 || refused {
				o.Trivial = false
			}
			// ---- noeviction
			if policy == "noeviction" {
				if len(evicted) > 0 {
					fail("evicted-under-noeviction", fmt.Sprintf("op %d %q removed %v", i, op.Args, evicted))
				}
				if name == "SET" || name == "HSET" {
					over := before.MemUsed >= limit
					if over && !refused {
						fail("write-accepted-over-limit", fmt.Sprintf("op %d %q accepted with usage %d >= limit %d", i, op.Args, before.MemUsed, limit))
					}
					if !over && refused {
						fail("write-refused-under-limit", fmt.Sprintf("op %d %q refused (%s) with usage %d < limit %d", i, op.Args, r, before.MemUsed, limit))
					}
				}
			} else if len(evicted) > 0 {
				// (a)+(b) every single eviction must start with usage at or above the limit (reported by the Evict hook)
				dbsHit := map[int]bool{}
				for _, n := range notes {
					dbsHit[n.db] = true
				}
				for _, n := range notes {
					if n.used < limit {
						if len(dbsHit) > 1 {
							fail2("over-eviction/across-databases", fmt.Sprintf("op %d %q: %d/%s evicted with usage %d already under the limit %d (the per-database eviction goroutines each passed the limit test before any of them evicted)", i, op.Args, n.db, n.key, n.used, limit))
						} else {
							fail("evicted-under-limit", fmt.Sprintf("op %d %q: %d/%s evicted with usage %d < limit %d (all evictions of this step: %+v; usage before the command %d, after %d)", i, op.Args, n.db, n.key, n.used, limit, notes, before.MemUsed, after.MemUsed))
						}
					}
				}
				if len(notes) == 0 {
					fail("evicted-without-limit-check", fmt.Sprintf("op %d %q: keys %v vanished but the max-memory logic did not report an eviction", i, op.Args, evicted))
				}
				// (c) candidate set
				for _, id := range evicted {
					d, k := splitID(id)
					if volatile && before.DBs[d][k].ExpireAt == 0 && id != written && !(d == db && len(op.Args) > 1 && op.Args[1] == k) {
						fail("evicted-non-candidate", fmt.Sprintf("op %d %q: %s has no expiry but was evicted under %s", i, op.Args, id, policy))
					}
				}
				// (d) order among candidates of the same database
				if strings.HasSuffix(policy, "lru") || strings.HasSuffix(policy, "lfu") {
					for _, id := range evicted {
						d, _ := splitID(id)
						ea := acc[id]
						if ea == nil {
							continue
						}
						for k2, e2 := range after.DBs[d] {
							id2 := strconv.Itoa(d) + "/" + k2
							a2 := acc[id2]
							if a2 == nil || id2 == written || id2 == id || (volatile && e2.ExpireAt == 0) {
								continue
							}
							if name != "FLUSHDB" && strings.HasSuffix(policy, "lru") && a2.lastHi < ea.lastLo {
								fail("wrong-order", fmt.Sprintf("op %d %q evicted %s (last access %d) while %s (last access %d, less recently used) survived", i, op.Args, id, ea.lastLo, id2, a2.lastHi))
							}
							if strings.HasSuffix(policy, "lfu") && a2.countHi < ea.countLo {
								fail("wrong-order", fmt.Sprintf("op %d %q evicted %s (at least %d accesses) while %s (at most %d accesses, less frequently used) survived", i, op.Args, id, ea.countLo, id2, a2.countHi))
							}
						}
					}
				}
			}
			// (e) an evicted key disappears completely; bookkeeping holds no residue of removed keys
			for d, vol := range after.Volatile {
				for _, k := range vol {
					if _, ok := after.DBs[d][k]; !ok {
						fail("residue/volatile-index", fmt.Sprintf("op %d %q: %d/%s is gone from the store but still in the volatile index", i, op.Args, d, k))
					}
				}
			}
			for d, ks := range after.LRU {
				for _, k := range ks {
					if _, ok := after.DBs[d][k]; !ok {
						fail("residue/lru", fmt.Sprintf("op %d %q: %d/%s is gone from the store but still in the LRU heap", i, op.Args, d, k))
					}
				}
			}
			for d, ks := range after.LFU {
				for _, k := range ks {
					if _, ok := after.DBs[d][k]; !ok {
						fail("residue/lfu", fmt.Sprintf("op %d %q: %d/%s is gone from the store but still in the LFU heap", i, op.Args, d, k))
					}
				}
			}
			// (f) survivors unchanged (except the key the command wrote / touched deadline of)
			for d, data := range after.DBs {
				for k, e := range data {
					id := strconv.Itoa(d) + "/" + k
					b, was := before.DBs[d][k]
					if !was || id == written || (d == db && len(op.Args) > 1 && op.Args[1] == k) {
						continue
					}
					if RenderEntry(b, false) != RenderEntry(e, false) {
						fail("survivor-changed", fmt.Sprintf("op %d %q changed %s: %s -> %s", i, op.Args, id, RenderEntry(b, false), RenderEntry(e, false)))
					}
				}
			}
			// ---- access bookkeeping of the model
			for _, id := range evicted {
				delete(acc, id)
			}
			for id := range mayRemove {
				delete(acc, id)
			}
			if len(op.Args) > 1 && !refused && name != "DEL" {
				id := dk(op.Args[1])
				if _, ok := after.DBs[db][op.Args[1]]; ok {
					if acc[id] == nil {
						acc[id] = &c08Acc{}
					}
					nowVolatile := after.DBs[db][op.Args[1]].ExpireAt != 0
					switch {
					case volatile && !nowVolatile && name == "PERSIST":
						// the key leaves the candidate set: what was remembered about it may be forgotten
						acc[id].lastLo, acc[id].countLo = 0, 0
						acc[id].lastHi = now
						acc[id].countHi++
					case volatile && !nowVolatile:
						// under a volatile policy an access to a key without a deadline may or may not be remembered
						acc[id].lastHi = now
						acc[id].countHi += 2
					case name == "PERSIST":
						acc[id].lastHi = now
						acc[id].countHi++
					case name == "HSET":
						acc[id].lastLo, acc[id].lastHi = now, now
						acc[id].countLo++
						acc[id].countHi += 2
					default:
						acc[id].lastLo, acc[id].lastHi = now, now
						acc[id].countLo++
						acc[id].countHi++
					}
				} else {
					delete(acc, id)
				}
			}
		}
		o.Stats = s.Stats
		o.Log = s.Log
	})
	if br.panicVal != nil && o.Sig == "" {
		o.Sig = "C08/" + p.SK("policy") + "/panic/" + topRepoFrame(br.stack)
		o.Detail = fmt.Sprintf("%v\n%s", br.panicVal, br.stack)
	}
	o.Class = p.SK("policy") + "|" + strings.Join(class, ",")
	o.Sample = map[string]any{"policy": p.SK("policy"), "outcomes": class}
	return o
}

func splitID(id string) (int, string) {
	i := strings.IndexByte(id, '/')
	d, _ := strconv.Atoi(id[:i])
	return d, id[i+1:]
}
