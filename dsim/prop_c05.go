package dsim

// C05 — commands are atomic: concurrent clients see a sequential order.
//
// Profile "conc": 2-3 clients issue 1-2 commands each at the same instant; the dice
// decide the interleaving of their keyspace steps; the same commands are then run
// serially on fresh instances in every order compatible with per-client order
// (metamorphic oracle: no reference model involved). Profile "actors": SAVE,
// REWRITEAOF, FLUSH*, SWAPDB and the expiry sampler run next to readers and writers;
// oracles: no panic, no deadlock, no endless busy-wait, state copy never overlaps a mutation.

import (
	"fmt"
	"sort"
	"strings"
	"testing"
)

func init() {
	register(&PropDef{
		ID: "C05",
		Rule: "plan = seeded dataset + 2-3 concurrent clients x 1-2 commands (every family, shared/overlapping/distinct keys) + dice deciding every keyspace-step interleaving; " +
			"non-trivial = at least one controller step had >=2 runnable tasks; distinct = hash of (task site sequence at multi-choice steps, command multiset)",
		Gen:  genC05,
		Run:  runC05,
		Real: []string{"sugardb.handleCommand", "keyspace (storeLock, getValues/setValues/...)", "all command handlers", "async cache bookkeeping goroutines", "snapshot engine", "AOF engine", "expiry sampler"},
		Stub: []string{"TCP accept loop (connections are simconn pairs served by the real handleConnection)", "goroutine scheduler choice (controller releases one parked task at a time)"},
		Assumptions: []string{
			"execution between two yield points is atomic (true for the storeLock critical sections; data races inside a step are not observed)",
			"serial reference executions run on the same build: a sequential handler bug cannot raise a C05 alarm",
		},
	})
}

var c05Keys = []string{"k1", "k2", "k3"}

func genC05(r *Rng, tier string, idx int) *Plan {
	p := &Plan{Knobs: map[string]int64{}, SKnobs: map[string]string{}}
	if idx%10 == 3 {
		return genConnConc(r, tier, p)
	}
	if idx%5 == 4 {
		switch (idx / 5) % 3 {
		case 1:
			return genConnConc(r, tier, p)
		case 2:
			return genC05BG(r, tier, p)
		}
		return genC05Actors(r, tier, p)
	}
	if idx%5 == 0 || idx%5 == 1 {
		return genC05Pair(r, p, idx)
	}
	p.Profile = "conc"
	nkeys := r.Range(1, 3)
	g := &GenCfg{Keys: c05Keys[:nkeys], NoRandom: true, NowMs: 946684800000}
	g.Exclude = map[string]bool{"TTL": true} // TTL/PTTL only read the clock; no atomicity content
	p.Init = g.SeedOps(r, r.Range(0, 6))
	nclients := r.Range(2, 3)
	per := 1
	if tier == "thorough" && r.Chance(0.4) {
		per = 2
	}
	p.Knobs["clients"] = int64(nclients)
	// bias: same family on the same key half of the time
	var fam map[string]bool
	if r.Bool() {
		f := Pick(r, []string{"generic", "hash", "list", "set", "zset", "string"})
		fam = map[string]bool{f: true, "generic": true}
	}
	g2 := &GenCfg{Keys: g.Keys, NoRandom: true, NowMs: g.NowMs, Families: fam, Exclude: g.Exclude}
	for c := 0; c < nclients; c++ {
		for j := 0; j < per; j++ {
			p.Ops = append(p.Ops, Op{C: c, Args: g2.Cmd(r)})
		}
	}
	p.Knobs["tcp"] = int64(r.Intn(2))
	expireSome(r, p, g.Keys)
	p.Dice = drawDice(r, 64)
	return p
}

// expireSome leaves some seeded keys expired but still physically present (a deadline in the past, nothing has
// collected them yet): commands then take the lazy-expiry paths of the keyspace functions, concurrently.
func expireSome(r *Rng, p *Plan, keys []string) {
	if !r.Chance(0.3) {
		return
	}
	for _, k := range keys {
		if r.Chance(0.7) {
			p.Init = append(p.Init, Op{Args: []string{"EXPIRE", k, "-10"}})
		}
	}
}

// genC05Pair: one target command (every command gets its turn) against an adversary on the same key:
// the interleavings most likely to expose a handler that is not atomic.
func genC05Pair(r *Rng, p *Plan, idx int) *Plan {
	p.Profile = "conc"
	var cands []*CmdSpec
	for _, sp := range allSpecs {
		if sp.Random || sp.Name == "TTL" || sp.Name == "FLUSHDB" || sp.Name == "FLUSHALL" || sp.Name == "RANDOMKEY" {
			continue
		}
		cands = append(cands, sp)
	}
	target := cands[(idx/5)%len(cands)]
	key := "k1"
	g := &GenCfg{Keys: []string{key}, NoRandom: true, NowMs: 946684800000}
	// seed the key with a value of the family the target works on (sometimes absent, sometimes another type)
	creator := map[string]string{"generic": "SET", "string": "SET", "hash": "HSET", "list": "RPUSH", "set": "SADD", "zset": "ZADD"}[target.Family]
	switch r.Intn(6) {
	case 0:
	case 1:
		p.Init = append(p.Init, Op{Args: specByName[Pick(r, []string{"SET", "HSET", "RPUSH", "SADD", "ZADD"})].Gen(r, g)})
	default:
		a := specByName[creator].Gen(r, g)
		var b []string
		for _, x := range a {
			switch x {
			case "NX", "XX", "GT", "LT", "CH", "GET":
				continue
			}
			b = append(b, x)
		}
		p.Init = append(p.Init, Op{Args: b})
		if r.Bool() {
			p.Init = append(p.Init, Op{Args: specByName[creator].Gen(r, g)})
		}
	}
	p.Knobs["clients"] = 2
	p.Ops = append(p.Ops, Op{C: 0, Args: target.Gen(r, g)})
	var adv []string
	switch r.Intn(7) {
	case 0:
		adv = []string{"DEL", key}
	case 1:
		adv = []string{"FLUSHALL"}
		if r.Chance(0.4) {
			// modifiers other servers know (an error on this one): a flush has one position in the command order
			adv = []string{Pick(r, []string{"FLUSHALL", "FLUSHDB"}), Pick(r, []string{"ASYNC", "SYNC"})}
		}
	case 2:
		adv = []string{"SET", key, "zz"}
	case 3:
		adv = target.Gen(r, g)
	case 4:
		adv = specByName[Pick(r, []string{"HSET", "RPUSH", "SADD", "ZADD", "APPEND", "INCR"})].Gen(r, g)
	case 5:
		adv = []string{"EXPIRE", key, "100"}
	default:
		adv = specByName[creator].Gen(r, g)
	}
	p.Ops = append(p.Ops, Op{C: 1, Args: adv})
	p.Knobs["tcp"] = int64(r.Intn(2))
	expireSome(r, p, []string{key})
	p.Dice = drawDice(r, 48)
	return p
}

type c05Exec struct {
	results []string // per op index
	data    map[string]string
	steps   []int // keyspace calls per op (serial executions only)
}

// canonical reply text: unordered replies are sorted.
var unorderedReply = map[string]bool{"SMEMBERS": true, "SUNION": true, "SINTER": true, "SDIFF": true, "HKEYS": true, "HVALS": true,
	"HGETALL": true, "ZDIFF": false}

func canonResult(args []string, r Result) string {
	name := strings.ToUpper(args[0])
	if r.Panic != "" {
		return "PANIC@" + topRepoFrame(r.Panic)
	}
	if unorderedReply[name] && !r.IsError() && r.ParseErr == "" && len(r.Reply.Elems) > 0 {
		var parts []string
		if name == "HGETALL" && r.Reply.Kind == RArray && len(r.Reply.Elems)%2 == 0 {
			for i := 0; i+1 < len(r.Reply.Elems); i += 2 {
				parts = append(parts, r.Reply.Elems[i].String()+"="+r.Reply.Elems[i+1].String())
			}
		} else {
			for _, e := range r.Reply.Elems {
				parts = append(parts, e.String())
			}
		}
		sort.Strings(parts)
		return string(r.Reply.Kind) + "{" + strings.Join(parts, " ") + "}"
	}
	return r.String()
}

func runC05(t *testing.T, p *Plan) *Outcome {
	if p.Profile == "actors" {
		return runC05Actors(t, p)
	}
	if p.Profile == "bg" {
		return runC05BG(t, p)
	}
	return runConcCore(t, p, "C05")
}

// runConcCore runs the plan's commands concurrently (dice-scheduled at keyspace and store-lock granularity) and
// compares with every serial order on fresh instances. ns is the property the verdict is reported under: "C05",
// or "C13" for plans made of read-only commands only (which must in addition leave the dataset as it was).
func runConcCore(t *testing.T, p *Plan, ns string) *Outcome {
	o := &Outcome{}
	var initData map[string]string
	var conc c05Exec
	var serials []c05Exec
	var orders [][]int
	var blame []string
	var interleaved []bool // per op: another op ran a keyspace step between this op's first and last
	var torn []string
	var tornDetail string
	var panicSig string
	matched := false
	br := RunBubble(t, func() {
		s := NewSim()
		s.logOn = true
		s.install()
		defer s.uninstall()
		dice := p.NewDice()
		nclients := int(p.K("clients"))
		if p.K("parklocks") == 1 {
			s.ParkLocks = map[string]bool{"conninfo": true, "acl.users": true, "pubsub.channels": true, "pubsub.subscribers": true}
		}
		boot := func(id int) (*Instance, []*Client) {
			inst, err := s.Boot(id, BaseConfig)
			if err != nil {
				return nil, nil
			}
			seed := s.NewEmbeddedClient(inst, "seed")
			for _, op := range p.Init {
				if op.Kind != "cseed" {
					seed.DoSync(op.Args...)
				}
			}
			cs := make([]*Client, nclients)
			for i := range cs {
				if (p.K("tcp") == 1 && i == 0) || p.K("alltcp") == 1 {
					cs[i] = s.NewTCPClient(inst, fmt.Sprintf("i%dc%d", id, i))
					if db := p.K(fmt.Sprintf("cdb%d", i)); db > 0 && int(db) < len(connDBs) {
						cs[i].DoSync("SELECT", connDBs[db])
					}
				} else {
					cs[i] = s.NewEmbeddedClient(inst, fmt.Sprintf("i%dc%d", id, i))
				}
			}
			for _, op := range p.Init {
				if op.Kind == "cseed" && len(cs) > 0 {
					cs[op.C%len(cs)].DoSync(op.Args...) // seeds the database that connection has selected
				}
			}
			return inst, cs
		}
		inst, cs := boot(1)
		if inst == nil {
			o.Sig, o.Detail = ns+"/boot-failed", "instance construction failed"
			return
		}
		initData = StripExpired(inst.DB.VerifDump(), nowMs(), false)
		// ---- concurrent execution
		conc.results = make([]string, len(p.Ops))
		type opState struct {
			task        *Task
			first, last int // step numbers of first/last keyspace step
			done        bool
		}
		ops := make([]*opState, len(p.Ops))
		next := make([]int, nclients) // next op index per client
		perClient := make([][]int, nclients)
		var markers []int // probes issued one after the other once the concurrent phase is over
		for i, op := range p.Ops {
			if op.Kind == "marker" {
				markers = append(markers, i)
				continue
			}
			perClient[op.C%nclients] = append(perClient[op.C%nclients], i)
		}
		taskOp := map[*Task]int{}
		startNext := func(c int) {
			if next[c] >= len(perClient[c]) {
				return
			}
			i := perClient[c][next[c]]
			next[c]++
			st := &opState{first: -1, last: -1}
			ops[i] = st
			st.task = cs[c].Start(p.Ops[i].Args, func(r Result) {
				conc.results[i] = canonResult(p.Ops[i].Args, r)
				st.done = true
			})
			taskOp[st.task] = i
		}
		for c := 0; c < nclients; c++ {
			startNext(c)
		}
		ksSteps := map[int][]int{} // op -> steps at which it ran a keyspace step
		changes := make([]int, len(p.Ops))
		holding, holdDone, c0Locks := false, false, 0
		lastData := hashString(DataString2(StripExpired(inst.DB.VerifDump(), nowMs(), false)))
		for budget := 0; budget < 3000; budget++ {
			parked := s.ParkedTasks()
			if len(parked) == 0 {
				// start follow-up commands of clients whose previous command finished
				started := false
				for c := 0; c < nclients; c++ {
					if next[c] > 0 && next[c] < len(perClient[c]) && ops[perClient[c][next[c]-1]].done {
						startNext(c)
						started = true
					}
				}
				if !started {
					break
				}
				continue
			}
			tk, stuck := PickFair(parked, dice.Next(len(parked)), 300)
			// directed plans (knob holdk): the first connection is stopped right before its (holdk+1)-th acquisition of
			// the store lock and stays there while the other connections run their commands to the end - the widest
			// window between two critical sections of one command that any schedule can open
			if hk := int(p.K("holdk")); hk > 0 && !holdDone {
				isC0 := func(t *Task) bool {
					if i, ok := taskOp[t]; ok {
						return p.Ops[i].C%nclients == 0
					}
					return cs[0].TCP && strings.HasSuffix(t.Name, cs[0].Name)
				}
				if !holding {
					for _, t := range parked {
						if isC0(t) && isLockSite(t.Site) && c0Locks == hk {
							holding = true
						}
					}
				}
				if holding {
					var others []*Task
					for _, t := range parked {
						if !isC0(t) {
							others = append(others, t)
						}
					}
					if len(others) == 0 {
						started := false
						for c := 1; c < nclients; c++ {
							if next[c] > 0 && next[c] < len(perClient[c]) && ops[perClient[c][next[c]-1]].done {
								startNext(c)
								started = true
							}
						}
						if started {
							continue
						}
						holding, holdDone = false, true
					} else {
						tk, stuck = PickFair(others, dice.Next(len(others)), 300)
					}
				}
				if isC0(tk) && isLockSite(tk.Site) {
					c0Locks++
				}
			}
			s.noteChoice(len(parked), tk.Site)
			if stuck {
				panicSig = ns + "/livelock/" + tk.Site
				o.Detail = fmt.Sprintf("task t%d has spun %d times at %s and nothing else can change the flag", tk.ID, tk.Spins, tk.Site)
				return
			}
			// attribute keyspace steps to the owning op (the task itself or a client task's server conn)
			if tk.Bookkeeping {
				// the accounting pass after the handler is not part of the command's effect
			} else if i, ok := taskOp[tk]; ok && isLockSite(tk.Site) {
				ksSteps[i] = append(ksSteps[i], s.Step)
			} else if isLockSite(tk.Site) || tk.Site == "conn.read" {
				// server-side task of a TCP client: attribute to that client's current op
				for c := 0; c < nclients; c++ {
					if cs[c].TCP && next[c] > 0 && strings.HasSuffix(tk.Name, cs[c].Name) {
						i := perClient[c][next[c]-1]
						if isLockSite(tk.Site) {
							ksSteps[i] = append(ksSteps[i], s.Step)
						}
					}
				}
			}
			// which command does this step belong to (for the torn-write check below)
			owner := -1
			if i, ok := taskOp[tk]; ok {
				owner = i
			} else if tk.Owned {
				for c := 0; c < nclients; c++ {
					if cs[c].TCP && next[c] > 0 && strings.HasSuffix(tk.Name, cs[c].Name) {
						owner = perClient[c][next[c]-1]
					}
				}
			}
			s.Release(tk)
			if owner >= 0 && !tk.Bookkeeping {
				if h := hashString(DataString2(StripExpired(inst.DB.VerifDump(), nowMs(), false))); h != lastData {
					lastData = h
					changes[owner]++
				}
			} else {
				lastData = hashString(DataString2(StripExpired(inst.DB.VerifDump(), nowMs(), false)))
			}
			for c := 0; c < nclients; c++ {
				if next[c] > 0 && next[c] < len(perClient[c]) && ops[perClient[c][next[c]-1]].done {
					startNext(c)
				}
			}
		}
		for i, n := range changes {
			if sp := specByName[strings.ToUpper(p.Ops[i].Args[0])]; n >= 2 && sp != nil && sp.Write && p.Profile != "conn" {
				torn = append(torn, strings.ToUpper(p.Ops[i].Args[0]))
				tornDetail = fmt.Sprintf("%q changed the dataset in %d separate steps: a command of another client scheduled between them observes a half-applied command", p.Ops[i].Args, n)
			}
		}
		s.DrainAll(2000)
		for _, i := range markers {
			r := cs[p.Ops[i].C%nclients].DoSync(p.Ops[i].Args...)
			conc.results[i] = canonResult(p.Ops[i].Args, r)
			ops[i] = &opState{done: true}
		}
		for i, st := range ops {
			if (st == nil || !st.done) && p.Profile == "conn" && panicSig == "" {
				panicSig = ns + "/never-answered/" + strings.ToUpper(p.Ops[i].Args[0])
				o.Detail = fmt.Sprintf("commands %v issued concurrently: %q was never answered (parked tasks left: %d)", opsStrings(p.Ops), p.Ops[i].Args, len(s.ParkedTasks()))
			}
			if st == nil || !st.done {
				// a command that never completed: deadlock or lost wake-up
				if conc.results[i] == "" {
					conc.results[i] = "NEVER-COMPLETED"
				}
			}
		}
		for _, c := range cs {
			if c.SrvPanic != "" {
				panicSig = ns + "/panic/" + topRepoFrame(c.SrvPanic)
				o.Detail = c.SrvPanic
			}
		}
		conc.data = DataMap(inst.DB.VerifDump(), false)
		o.Stats = s.Stats
		o.Sched = s.schedHash
		o.StateH = append(o.StateH, hashString(DataString(inst.DB.VerifDump(), false)))
		o.Log = s.Log
		if panicSig != "" {
			return
		}
		// which ops were interleaved: another op ran a keyspace step between this op's first and last
		interleaved = make([]bool, len(p.Ops))
		for i, a := range ksSteps {
			if len(a) < 2 {
				continue
			}
			lo, hi := a[0], a[len(a)-1]
			for j, b := range ksSteps {
				if j == i {
					continue
				}
				for _, x := range b {
					if x > lo && x < hi {
						interleaved[i] = true
					}
				}
			}
		}
		// ---- serial reference executions: all interleavings of the per-client sequences
		orders = mergeOrders(perClient)
		id := 10
		runSerials := func() bool {
			for _, ord := range orders {
				id++
				inst2, cs2 := boot(id)
				if inst2 == nil {
					continue
				}
				ex := c05Exec{results: make([]string, len(p.Ops)), steps: make([]int, len(p.Ops))}
				for _, i := range append(append([]int{}, ord...), markers...) {
					before := s.ksCalls.Load()
					r := cs2[p.Ops[i].C%nclients].DoSync(p.Ops[i].Args...)
					ex.steps[i] = int(s.ksCalls.Load() - before)
					ex.results[i] = canonResult(p.Ops[i].Args, r)
				}
				ex.data = DataMap(inst2.DB.VerifDump(), false)
				serials = append(serials, ex)
				s.KillInstance(id)
				if equalStrings(ex.results, conc.results) && mapsEqual(ex.data, conc.data) {
					return true
				}
			}
			return false
		}
		if ns == "C12" {
			// C12 is about liveness and framing (every command answered, process up): checked above
			matched = true
			return
		}
		if p.Profile == "conn" && hasCmd(p.Ops, "SWAPDB") && swapdbExposed(p.Ops) && Avoiding(p, ns+"/conn-nonserializable/SWAPDB") {
			// open finding: SWAPDB is not atomic. The plan was still run for its liveness content (every command
			// answered, no deadlock, no panic); the serial-order comparison is skipped.
			o.Skipped++
			matched = true
			return
		}
		matched = runSerials()
		// Some handlers iterate over Go maps: the same serial order can give different outcomes from one
		// execution to the next. Before calling an outcome non-serializable the serial orders are therefore
		// repeated; the concurrent outcome only has to be produced by one of them once.
		reps := 40
		if p.Profile == "conn" {
			reps = 5 // no map-iteration dependent commands among the generated ones; 90 orders per round
		}
		for rep := 0; rep < reps && !matched; rep++ {
			matched = runSerials()
			if len(serials) > len(orders) {
				serials = serials[:len(orders)] // keep the first round for the report
			}
		}
		for i := range p.Ops {
			if interleaved[i] {
				blame = append(blame, strings.ToUpper(p.Ops[i].Args[0]))
			}
		}
	})
	if br.panicVal != nil {
		o.Sig = "C05/panic/" + topRepoFrame(br.stack)
		o.Detail = fmt.Sprintf("%v\n%s", br.panicVal, br.stack)
		return o
	}
	if panicSig != "" {
		o.Sig = panicSig
		return o
	}
	if o.Sig != "" {
		return o
	}
	o.Trivial = o.Stats.MultiChoice == 0
	var names []string
	for _, op := range p.Ops {
		names = append(names, strings.ToUpper(op.Args[0]))
	}
	sort.Strings(names)
	o.Class = strings.Join(names, "+")
	o.Sample = map[string]any{"concurrent_replies": conc.results, "serial_orders": len(orders)}
	if ns == "C13" {
		final := stripExpiredMap(conc.data, nowMs())
		if !mapsEqual(final, initData) {
			o.Sig = "C13/readers-changed-data/" + names[0]
			o.Detail = fmt.Sprintf("read-only commands %v run concurrently changed the dataset: %s", opsStrings(p.Ops), DiffData(final, initData, "after", "before", 4))
			return o
		}
		if !matched && len(serials) > 0 {
			o.Sig = "C13/reader-interference/" + o.Class
			o.Detail = fmt.Sprintf("read-only commands %v run concurrently answered %v, which no serial order gives (e.g. %v answers %v)", opsStrings(p.Ops), conc.results, orders[0], serials[0].results)
		}
		return o
	}
	// ---- a write command whose effect is spread over several steps (reported whether or not this run's
	// interleaving happened to put an observer in between: the half-applied state existed)
	if len(torn) > 0 && ns == "C05" {
		sort.Strings(torn)
		o.Sig = "C05/torn-write/" + torn[0]
		o.Detail = tornDetail
		return o
	}
	// ---- compare
	if matched || len(serials) == 0 {
		return o
	}
	// no serial order explains the concurrent outcome
	rel := keyRelation(p.Ops)
	sort.Strings(blame)
	blame = uniq(blame)
	if p.Profile != "conn" {
		// Write commands run one at a time (569d0b5) and read commands write nothing, so whatever the readers'
		// own non-atomicity (recorded findings) does to THEIR replies, the final dataset and the writers' replies
		// are those of some serial order. If they are not, the anomaly cannot be blamed on a recorded reader
		// finding: a write was lost, torn or undone.
		now := nowMs()
		dataOK := false
		for _, ex := range serials {
			if !mapsEqual(stripExpiredMap(ex.data, now), stripExpiredMap(conc.data, now)) {
				continue
			}
			ok := true
			for i, op := range p.Ops {
				if sp := specByName[strings.ToUpper(op.Args[0])]; sp != nil && sp.Write && ex.results[i] != conc.results[i] {
					ok = false
				}
			}
			if ok {
				dataOK = true
				break
			}
		}
		if !dataOK {
			culprit := o.Class
			for _, b := range blame {
				culprit = b
				if sp := specByName[b]; sp != nil && !sp.Write {
					break // a read command whose steps were interleaved and after which the data is wrong
				}
			}
			o.Sig = "C05/dataset-nonserializable/" + culprit
			o.Detail = fmt.Sprintf("commands %v: the final dataset (and the write commands' replies) match no serial order of the %d tried, although write commands run one at a time: a write was lost, torn or undone; interleaved commands: %v; concurrent replies %v; e.g. serial order %v gives replies %v; dataset diff vs that order: %s",
				opsStrings(p.Ops), len(serials), blame, conc.results, orders[0], serials[0].results, DiffData(conc.data, serials[0].data, "concurrent", "serial", 4))
			return o
		}
	}
	known := ""
	for _, b := range blame {
		if Avoiding(p, "C05/nonatomic/"+b) || openSigs["C05/nonatomic/"+b] {
			known = b
			break
		}
	}
	if p.Profile == "conn" && known == "" {
		o.Sig = ns + "/conn-nonserializable/" + connCulprit(p.Ops)
		o.Detail = fmt.Sprintf("connections issuing %v concurrently: replies %v and the final dataset match no serial order (of %d); e.g. serial order %v gives replies %v; dataset diff vs that order: %s",
			opsStrings(p.Ops), conc.results, len(serials), orders[0], serials[0].results, DiffData(conc.data, serials[0].data, "concurrent", "serial", 4))
		return o
	}
	if p.Profile == "conn" && ns != "C05" {
		// a data command with a recorded non-atomicity finding (C05) was interleaved: C05's business
		o.Skipped++
		return o
	}
	switch {
	case rel == "shared" && known != "":
		o.Sig = "C05/nonatomic/" + known
	case rel == "shared" && len(blame) > 0:
		// No recorded finding among the interleaved commands. The dataset and the writers' replies are those of a
		// serial order (checked above), so what cannot be explained is a READER's reply: name the interleaved read
		// command whose reply differs from that order's, not simply the first interleaved command by name (which
		// may be a writer whose own non-atomicity was repaired).
		culprit := blame[0]
		if p.Profile != "conn" {
			now := nowMs()
			bestDiff := -1
			for _, ex := range serials {
				if !mapsEqual(stripExpiredMap(ex.data, now), stripExpiredMap(conc.data, now)) {
					continue
				}
				ok, cand, nd := true, "", 0
				for i, op := range p.Ops {
					name := strings.ToUpper(op.Args[0])
					if ex.results[i] == conc.results[i] {
						continue
					}
					if sp := specByName[name]; sp != nil && sp.Write {
						ok = false
						break
					}
					nd++
					if i < len(interleaved) && interleaved[i] && (cand == "" || name < cand) {
						cand = name
					}
				}
				if ok && cand != "" && (bestDiff < 0 || nd < bestDiff) {
					bestDiff, culprit = nd, cand
				}
			}
		}
		o.Sig = "C05/nonatomic/" + culprit
	default:
		o.Sig = "C05/nonserializable/" + rel + "/" + o.Class
	}
	best := serials[0]
	o.Detail = fmt.Sprintf("commands %v: concurrent replies %v, no serial order (of %d) gives the same replies and dataset; interleaved multi-step commands: %v; e.g. serial order %v gives replies %v; dataset diff vs that order: %s",
		opsStrings(p.Ops), conc.results, len(serials), blame, orders[0], best.results, DiffData(conc.data, best.data, "concurrent", "serial", 4))
	return o
}

// isLockSite: the task is about to request the store lock (one critical section = one step).
func isLockSite(site string) bool { return site == "lock.store" || site == "rlock.store" }

func equalStrings(a, b []string) bool {
	if len(a) != len(b) {
		return false
	}
	for i := range a {
		if a[i] != b[i] {
			return false
		}
	}
	return true
}

func uniq(a []string) []string {
	var out []string
	for i, x := range a {
		if i == 0 || x != a[i-1] {
			out = append(out, x)
		}
	}
	return out
}

// mergeOrders enumerates all interleavings of the per-client index sequences.
func mergeOrders(seqs [][]int) [][]int {
	total := 0
	for _, s := range seqs {
		total += len(s)
	}
	var res [][]int
	pos := make([]int, len(seqs))
	cur := make([]int, 0, total)
	var rec func()
	rec = func() {
		if len(cur) == total {
			res = append(res, append([]int{}, cur...))
			return
		}
		for c := range seqs {
			if pos[c] < len(seqs[c]) {
				cur = append(cur, seqs[c][pos[c]])
				pos[c]++
				rec()
				pos[c]--
				cur = cur[:len(cur)-1]
			}
		}
	}
	rec()
	return res
}

// keyRelation: "shared" when two commands of different clients name a common key (or one is keyspace-wide), else "disjoint".
func keyRelation(ops []Op) string {
	for i := range ops {
		for j := i + 1; j < len(ops); j++ {
			if ops[i].C == ops[j].C {
				continue
			}
			ki, kj := CmdKeys(ops[i].Args), CmdKeys(ops[j].Args)
			if len(ki) == 0 || len(kj) == 0 {
				return "shared"
			}
			for _, a := range ki {
				for _, b := range kj {
					if a == b {
						return "shared"
					}
				}
			}
		}
	}
	return "disjoint"
}
