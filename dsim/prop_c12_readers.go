package dsim

// C12, profile "readers": 2-3 connections each read their OWN key (list, hash, set, sorted set, strings) with bulk
// read commands at the same time, every keyspace step, store-lock acquisition and the hooks between handler, log
// and reply scheduled by the dice. The keys are disjoint and nothing is written, so each reply is determined: it
// must be byte for byte the reply the same command got a moment before, when it ran alone - a reply assembled in
// memory that another connection's command can still reach (a shared or pooled buffer) shows up here.

import (
	"fmt"
	"strings"
	"testing"
)

func genC12Readers(r *Rng, tier string) *Plan {
	p := &Plan{Profile: "readers", Knobs: map[string]int64{}, SKnobs: map[string]string{}}
	n := r.Range(2, 3)
	p.Knobs["clients"] = int64(n)
	p.Knobs["proto"] = int64(Pick(r, []int{2, 2, 3}))
	for c := 0; c < n; c++ {
		key := fmt.Sprintf("own%d", c)
		m := r.Range(3, 40)
		el := func(i int) string {
			return fmt.Sprintf("c%d-element-%03d-%s", c, i, strings.Repeat(string(rune('a'+c)), r.Range(0, 30)))
		}
		var seed, read []string
		switch r.Intn(4) {
		case 0:
			seed = []string{"RPUSH", key}
			for i := 0; i < m; i++ {
				seed = append(seed, el(i))
			}
			read = Pick(r, [][]string{{"LRANGE", key, "0", "-1"}, {"LRANGE", key, "1", "-2"}, {"LINDEX", key, "0"}})
		case 1:
			seed = []string{"HSET", key}
			for i := 0; i < m; i++ {
				seed = append(seed, fmt.Sprintf("f%d", i), el(i))
			}
			read = Pick(r, [][]string{{"HGETALL", key}, {"HVALS", key}, {"HKEYS", key}})
		case 2:
			seed = []string{"SADD", key}
			for i := 0; i < m; i++ {
				seed = append(seed, el(i))
			}
			read = []string{"SMEMBERS", key}
		default:
			seed = []string{"ZADD", key}
			for i := 0; i < m; i++ {
				seed = append(seed, fmt.Sprint(i), el(i))
			}
			read = Pick(r, [][]string{{"ZRANGE", key, "0", "-1"}, {"ZRANGE", key, "0", "-1", "WITHSCORES"}})
		}
		p.Init = append(p.Init, Op{Args: seed})
		for j, k := 0, r.Range(1, 2); j < k; j++ {
			p.Ops = append(p.Ops, Op{C: c, Args: read})
		}
	}
	p.Dice = drawDice(r, 96)
	return p
}

func runC12Readers(t *testing.T, p *Plan) *Outcome {
	o := &Outcome{}
	fail := func(sig, detail string) {
		if o.Sig == "" {
			o.Sig, o.Detail = "C12/"+sig, detail
		}
	}
	var names []string
	br := RunBubble(t, func() {
		s := NewSim()
		s.logOn = true
		s.install()
		defer s.uninstall()
		dice := p.NewDice()
		inst, err := s.Boot(1, BaseConfig)
		if err != nil {
			fail("boot-failed", fmt.Sprint(err))
			return
		}
		seed := s.NewEmbeddedClient(inst, "seed")
		for _, op := range p.Init {
			seed.DoSync(op.Args...)
		}
		n := int(p.K("clients"))
		cs := make([]*Client, n)
		for i := range cs {
			cs[i] = s.NewTCPClient(inst, fmt.Sprintf("r%d", i))
			if p.K("proto") == 3 {
				cs[i].DoSync("HELLO", "3")
			}
		}
		// what each command answers when it runs alone
		want := make([]string, len(p.Ops))
		for i, op := range p.Ops {
			r := cs[op.C%n].DoSync(op.Args...)
			if r.Panic != "" || r.ParseErr != "" {
				return // the sequential path itself misbehaves: other profiles' business
			}
			want[i] = canonResult(op.Args, r)
			names = append(names, strings.ToUpper(op.Args[0]))
		}
		// the same commands, all connections at once (per connection in order)
		got := make([]string, len(p.Ops))
		next := make([]int, n)
		per := make([][]int, n)
		for i, op := range p.Ops {
			per[op.C%n] = append(per[op.C%n], i)
		}
		busy := make([]bool, n)
		var start func(c int)
		start = func(c int) {
			if next[c] >= len(per[c]) {
				return
			}
			i := per[c][next[c]]
			next[c]++
			busy[c] = true
			cs[c].Start(p.Ops[i].Args, func(r Result) {
				busy[c] = false
				if r.Panic != "" {
					fail("server-panic/"+topRepoFrame(r.Panic), r.Panic)
				}
				if r.ParseErr != "" {
					got[i] = "MALFORMED " + r.ParseErr + ": " + trunc(string(r.Raw), 160)
				} else {
					got[i] = canonResult(p.Ops[i].Args, r)
				}
			})
		}
		for c := 0; c < n; c++ {
			start(c)
		}
		for step := 0; step < 4000 && o.Sig == ""; step++ {
			for c := 0; c < n; c++ {
				if !busy[c] {
					start(c)
				}
			}
			parked := s.ParkedTasks()
			if len(parked) == 0 {
				break
			}
			tk := parked[dice.Next(len(parked))]
			s.noteChoice(len(parked), tk.Site)
			s.Release(tk)
		}
		s.DrainAll(2000)
		for i := range p.Ops {
			if o.Sig != "" {
				break
			}
			switch {
			case got[i] == "":
				fail("no-reply/concurrent-readers", fmt.Sprintf("%q on connection %d was never answered while other connections were reading their own keys", p.Ops[i].Args, p.Ops[i].C))
			case got[i] != want[i]:
				fail("wrong-reply/concurrent-readers", fmt.Sprintf("%q on connection %d answered %s while other connections were reading their OWN keys; alone it answers %s", p.Ops[i].Args, p.Ops[i].C, trunc(got[i], 200), trunc(want[i], 200)))
			}
		}
		o.Stats = s.Stats
		o.Sched = s.schedHash
		o.Log = s.Log
	})
	if br.panicVal != nil && o.Sig == "" {
		o.Sig = "C12/harness-panic/" + topRepoFrame(br.stack)
		o.Detail = fmt.Sprintf("%v\n%s", br.panicVal, br.stack)
	}
	o.Trivial = o.Stats.MultiChoice == 0
	o.Class = "readers|" + strings.Join(names, "+")
	o.Sample = map[string]any{"profile": "readers", "commands": names}
	return o
}
