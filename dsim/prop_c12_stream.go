package dsim

// C12 profiles "stream" (pipelining and segmentation), "garbage" (malformed frames) and
// "payload" (stored bytes come back exactly; embedded result equals the wire reply).

import (
	"fmt"
	"strconv"
	"strings"
	"testing"
)

// simple commands whose replies depend only on the commands before them
func c12SimpleCmd(r *Rng, uniq *int) []string {
	keys := []string{"a", "b", "c"}
	switch r.Intn(11) {
	case 8:
		// commands that fail (unknown command, wrong arity, wrong type): an error is a reply like any other and
		// keeps its place in the pipeline
		return Pick(r, [][]string{{"NOSUCHCOMMAND", "x"}, {"GET"}, {"SET", "a"}, {"HGET", "n"}, {"INCR", "a", "b"}})
	case 9:
		return []string{"LPUSH", Pick(r, keys), "x"} // WRONGTYPE when the key holds a string
	case 10:
		return []string{"HSET", Pick(r, keys), "f", "v"}
	case 0:
		return []string{"PING"}
	case 1:
		*uniq++
		return []string{"ECHO", fmt.Sprintf("e%d-%s", *uniq, Pick(r, []string{"", "x", strings.Repeat("y", r.Range(1, 3000))}))}
	case 2, 3:
		*uniq++
		return []string{"SET", Pick(r, keys), fmt.Sprintf("v%d", *uniq)}
	case 4, 5:
		return []string{"GET", Pick(r, keys)}
	case 6:
		return []string{"INCR", "n"}
	default:
		return []string{"DEL", Pick(r, keys)}
	}
}

func genC12Stream(r *Rng, tier string) *Plan {
	p := &Plan{Profile: "stream", Knobs: map[string]int64{}, SKnobs: map[string]string{}}
	uniq := 0
	n := r.Range(2, 8)
	for i := 0; i < n; i++ {
		p.Ops = append(p.Ops, Op{Args: c12SimpleCmd(r, &uniq)})
	}
	p.Knobs["proto"] = int64(Pick(r, []int{2, 2, 3}))
	// segmentation: cut points drawn as dice at run time; number of cuts here
	p.Knobs["cuts"] = int64(Pick(r, []int{0, 0, 1, 2, 3, 5}))
	p.Knobs["conns"] = int64(r.Range(1, 3))
	p.Dice = drawDice(r, 32)
	return p
}

func runC12Stream(t *testing.T, p *Plan) *Outcome {
	o := &Outcome{}
	fail := func(sig, detail string) {
		if o.Sig == "" {
			o.Sig, o.Detail = "C12/"+sig, detail
		}
	}
	br := RunBubble(t, func() {
		s := NewSim()
		s.install()
		defer s.uninstall()
		dice := p.NewDice()
		s.passAll.Store(true)
		// reference: the same commands one at a time, each in its own write, on a fresh instance
		refInst, err := s.Boot(1, BaseConfig)
		if err != nil {
			fail("boot-failed", fmt.Sprint(err))
			return
		}
		rc := s.NewTCPClient(refInst, "ref")
		if p.K("proto") == 3 {
			rc.DoSync("HELLO", "3")
		}
		var want []string
		for _, op := range p.Ops {
			r := rc.DoSync(op.Args...)
			if r.Panic != "" || r.ParseErr != "" || r.NoReply {
				return // the one-at-a-time path itself misbehaves: that is the "cmds" profile's business
			}
			want = append(want, r.Reply.String())
		}
		s.KillInstance(1)
		inst, err := s.Boot(2, BaseConfig)
		if err != nil {
			fail("boot-failed", fmt.Sprint(err))
			return
		}
		probe := s.NewTCPClient(inst, "probe")
		cl := s.NewTCPClient(inst, "pipe")
		if p.K("proto") == 3 {
			cl.DoSync("HELLO", "3")
		}
		var stream []byte
		var bounds []int
		for _, op := range p.Ops {
			stream = append(stream, EncodeCmd(op.Args...)...)
			bounds = append(bounds, len(stream))
		}
		// cut points
		cuts := map[int]bool{}
		class := "pipelined"
		for i := 0; i < int(p.K("cuts")); i++ {
			at := 1 + dice.Next(len(stream)-1)
			cuts[at] = true
			class = "segmented"
		}
		pos := 0
		for at := 1; at <= len(stream); at++ {
			if cuts[at] || at == len(stream) {
				if _, err := cl.conn.Write(stream[pos:at]); err != nil {
					break
				}
				pos = at
				s.Settle()
			}
		}
		raw := cl.conn.Take()
		replies, rest, perr := ParseAll(raw)
		var got []string
		for _, r := range replies {
			got = append(got, r.String())
		}
		o.Class = fmt.Sprintf("%s/%d-cmds/%d-cuts", class, len(p.Ops), len(cuts))
		o.Sample = map[string]any{"class": o.Class, "commands": opsStrings(p.Ops)}
		switch {
		case cl.SrvPanic != "":
			fail("server-panic/"+topRepoFrame(cl.SrvPanic), cl.SrvPanic)
		case perr != nil || len(rest) > 0:
			fail("malformed-reply/"+class, fmt.Sprintf("%d commands in %d writes: reply stream is not well-formed RESP (%v): %q", len(p.Ops), len(cuts)+1, perr, trunc(string(raw), 300)))
		case len(got) < len(want):
			fail("no-reply/"+class, fmt.Sprintf("%d commands sent in %d writes, only %d replies came back: %v (one at a time they answer %v)", len(p.Ops), len(cuts)+1, len(got), truncAll(got), truncAll(want)))
		case len(got) > len(want):
			fail("extra-reply/"+class, fmt.Sprintf("%d commands sent, %d replies: %v", len(p.Ops), len(got), truncAll(got)))
		case !equalStrings(got, want):
			fail("wrong-reply/"+class, fmt.Sprintf("replies %v differ from the replies the same commands get one at a time %v", truncAll(got), truncAll(want)))
		}
		if pr := probe.DoSync("PING"); o.Sig == "" && (pr.Reply.Str != "PONG") {
			fail("other-connection-affected/"+class, "probe PING got "+pr.String())
		}
		// the subscribe family answers once per channel named - also for a channel the connection already listens to
		if o.Sig == "" {
			sc := s.NewTCPClient(inst, "sub")
			if p.K("proto") == 3 {
				sc.DoSync("HELLO", "3")
			}
			verb := "SUBSCRIBE"
			names := [][]string{{"x", "y"}, {"y", "z"}, {"z"}}
			if p.K("conns")%2 == 0 {
				verb, names = "PSUBSCRIBE", [][]string{{"p*", "p*"}, {"q?", "p*"}}
			}
			var wantNames []string
			var out []byte
			for _, ns := range names {
				out = append(out, EncodeCmd(append([]string{verb}, ns...)...)...)
				wantNames = append(wantNames, ns...)
			}
			_, _ = sc.conn.Write(out)
			s.Settle()
			frames, tail, ferr := ParseAll(sc.conn.Take())
			var gotNames []string
			for _, f := range frames {
				if len(f.Elems) == 3 && strings.EqualFold(f.Elems[0].Text(), verb) {
					gotNames = append(gotNames, f.Elems[1].Text())
				}
			}
			if ferr != nil || len(tail) > 0 || !equalStrings(gotNames, wantNames) {
				fail("subscribe-confirmations/"+strings.ToLower(verb), fmt.Sprintf("%s %v in one write: confirmations for %v, expected one per channel named, in order: %v", verb, names, gotNames, wantNames))
			}
		}
		o.Stats = s.Stats
	})
	if br.panicVal != nil && o.Sig == "" {
		o.Sig = "C12/harness-panic/" + topRepoFrame(br.stack)
		o.Detail = fmt.Sprintf("%v\n%s", br.panicVal, br.stack)
	}
	return o
}

func truncAll(a []string) []string {
	out := make([]string, len(a))
	for i, x := range a {
		out[i] = trunc(x, 40)
	}
	return out
}

var c12Garbage = []string{"\r\n", "*", "*-5\r\n", "*2\r\n$3\r\nGET\r\n", "$-3\r\nabc\r\n", "*1\r\n$99999999999\r\n", "*1\r\n$3\r\nab", "GET\r\n", "\x00\x00\x00",
	"*3\r\n$3\r\nSET\r\n$1\r\nk\r\n$5\r\nab\r\n", "*1\r\n:5\r\n", "*1\r\n*1\r\n$4\r\nPING\r\n", "+OK\r\n", "-ERR\r\n", "*0\r\n", "*1\r\n$0\r\n\r\n", "!!!!", "*2\r\n$4\r\nECHO\r\n$-1\r\n",
	"*1000000\r\n", "PING\n", "*1\r\n$4\r\nPING\r\n\r\n"}

func genC12Garbage(r *Rng, tier string) *Plan {
	p := &Plan{Profile: "garbage", Knobs: map[string]int64{}, SKnobs: map[string]string{}}
	n := r.Range(1, 4)
	for i := 0; i < n; i++ {
		g := Pick(r, c12Garbage)
		if r.Chance(0.3) {
			b := []byte(EncodeCmd("SET", "k", "value"))
			b[r.Intn(len(b))] = byte(r.Intn(256))
			g = string(b)
		}
		p.Ops = append(p.Ops, Op{Kind: "raw", S: g, C: r.Intn(2)})
		if r.Chance(0.25) {
			// the client goes away in the middle of a frame (or right after a command whose reply is large)
			b := EncodeCmd("SET", "k", strings.Repeat("v", r.Range(1, 3000)))
			cut := r.Range(1, len(b))
			if r.Chance(0.3) {
				b = EncodeCmd("ECHO", strings.Repeat("e", r.Range(900, 9000)))
				cut = len(b)
			}
			p.Ops = append(p.Ops, Op{Kind: "rawclose", S: string(b[:cut]), C: r.Intn(2)})
		}
	}
	return p
}

func runC12Garbage(t *testing.T, p *Plan) *Outcome {
	o := &Outcome{}
	fail := func(sig, detail string) {
		if o.Sig == "" {
			o.Sig, o.Detail = "C12/"+sig, detail
		}
	}
	br := RunBubble(t, func() {
		s := NewSim()
		s.install()
		defer s.uninstall()
		s.passAll.Store(true)
		inst, err := s.Boot(1, BaseConfig)
		if err != nil {
			fail("boot-failed", fmt.Sprint(err))
			return
		}
		probe := s.NewTCPClient(inst, "probe")
		conns := []*Client{s.NewTCPClient(inst, "g0"), s.NewTCPClient(inst, "g1")}
		var classes []string
		for i, op := range p.Ops {
			c := conns[op.C%2]
			classes = append(classes, strconv.Quote(trunc(op.S, 12)))
			if op.Kind == "rawclose" {
				_, _ = c.conn.Write([]byte(op.S))
				c.Close()
				s.Settle()
				s.Stats.FaultsFired["connection-closed-mid-frame"]++
				if c.SrvPanic != "" {
					fail("server-panic/"+topRepoFrame(c.SrvPanic), fmt.Sprintf("connection closed after %q: %s", trunc(op.S, 40), c.SrvPanic))
					break
				}
				if pr := probe.DoSync("PING"); pr.Reply.Str != "PONG" {
					fail("other-connection-affected/closed-mid-frame", fmt.Sprintf("after a connection was closed in the middle of %q the probe PING got %s", trunc(op.S, 40), pr))
					break
				}
				conns[op.C%2] = s.NewTCPClient(inst, fmt.Sprintf("g%d.%d", op.C%2, i))
				continue
			}
			_, _ = c.conn.Write([]byte(op.S))
			s.Settle()
			raw := c.conn.Take()
			if c.SrvPanic != "" {
				fail("server-panic/"+topRepoFrame(c.SrvPanic), fmt.Sprintf("input %q: %s", op.S, c.SrvPanic))
				break
			}
			if _, rest, perr := ParseAll(raw); perr != nil || (len(rest) > 0 && !c.conn.PeerClosed()) {
				fail("malformed-reply/garbage-input", fmt.Sprintf("op %d input %q answered with bytes that are not RESP: %q", i, op.S, trunc(string(raw), 200)))
				break
			}
			if pr := probe.DoSync("PING"); pr.Reply.Str != "PONG" {
				fail("other-connection-affected/garbage-input", fmt.Sprintf("after input %q on another connection the probe PING got %s", op.S, pr))
				break
			}
		}
		// a fresh connection still works
		if o.Sig == "" {
			n := s.NewTCPClient(inst, "fresh")
			if r := n.DoSync("ECHO", "alive"); r.Reply.Text() != "alive" {
				fail("server-unusable/garbage-input", "a new connection's ECHO got "+r.String())
			}
		}
		o.Class = "garbage|" + strings.Join(classes, ",")
		o.Sample = map[string]any{"inputs": classes}
		o.Stats = s.Stats
	})
	if br.panicVal != nil && o.Sig == "" {
		o.Sig = "C12/harness-panic/" + topRepoFrame(br.stack)
		o.Detail = fmt.Sprintf("%v\n%s", br.panicVal, br.stack)
	}
	return o
}

func genC12Payload(r *Rng, tier string) *Plan {
	p := &Plan{Profile: "payload", Knobs: map[string]int64{}, SKnobs: map[string]string{}}
	p.Knobs["proto"] = int64(Pick(r, []int{2, 2, 3}))
	n := r.Range(1, 5)
	for i := 0; i < n; i++ {
		v := Pick(r, c12Payloads)
		if r.Chance(0.5) {
			// reply lengths around the multiples of the 1024-byte reply chunk and of the 8192-byte read buffer:
			// every payload length within 24 bytes below such a boundary (the reply framing adds 7-15 bytes)
			k := Pick(r, []int{1, 1, 2, 3, 8, 16})
			v = strings.Repeat(string(rune('a'+r.Intn(26))), 1024*k-24+r.Intn(30))
		}
		p.Ops = append(p.Ops, Op{Kind: Pick(r, []string{"string", "list", "hash", "echo", "publish"}), S: v, C: r.Intn(2)})
	}
	return p
}

func payloadClass(v string) string {
	switch {
	case v == "":
		return "empty"
	case strings.ContainsAny(v, "\r\n"):
		return "crlf"
	case strings.Contains(v, "\x00"):
		return "nul"
	case len(v) >= 1024:
		return "len" + strconv.Itoa(len(v))
	case strings.ContainsAny(v[:1], "+-$*:"):
		return "resp-lookalike"
	}
	return "plain"
}

func runC12Payload(t *testing.T, p *Plan) *Outcome {
	o := &Outcome{}
	fail := func(sig, detail string) {
		if o.Sig == "" {
			o.Sig, o.Detail = "C12/"+sig, detail
		}
	}
	br := RunBubble(t, func() {
		s := NewSim()
		s.install()
		defer s.uninstall()
		s.passAll.Store(true)
		inst, err := s.Boot(1, BaseConfig)
		if err != nil {
			fail("boot-failed", fmt.Sprint(err))
			return
		}
		tcp := s.NewTCPClient(inst, "t")
		emb := s.NewEmbeddedClient(inst, "e")
		if p.K("proto") == 3 {
			tcp.DoSync("HELLO", "3")
		}
		var classes []string
		for i, op := range p.Ops {
			v := op.S
			cls := op.Kind + ":" + payloadClass(v)
			classes = append(classes, cls)
			key := fmt.Sprintf("k%d", i)
			var w, r Result
			writer, reader := tcp, tcp
			if op.C == 1 {
				writer = emb
			}
			var got string
			switch op.Kind {
			case "string":
				w = writer.DoSync("SET", key, v)
				r = reader.DoSync("GET", key)
				got = r.Reply.Text()
			case "list":
				w = writer.DoSync("RPUSH", key, v)
				r = reader.DoSync("LRANGE", key, "0", "0")
				if len(r.Reply.Elems) == 1 {
					got = r.Reply.Elems[0].Text()
				} else {
					got = "<" + r.String() + ">"
				}
			case "hash":
				w = writer.DoSync("HSET", key, "f", v)
				r = reader.DoSync("HGET", key, "f")
				got = r.Reply.Text()
				if len(r.Reply.Elems) == 1 {
					got = r.Reply.Elems[0].Text()
				}
			case "echo":
				r = reader.DoSync("ECHO", v)
				got = r.Reply.Text()
			case "publish":
				r = reader.DoSync("PUBLISH", "ch", v)
				got = v
			}
			for _, x := range []Result{w, r} {
				switch {
				case x.Panic != "":
					fail("server-panic/"+topRepoFrame(x.Panic), x.Panic)
				case x.ParseErr != "":
					fail("frame-injection/"+cls, fmt.Sprintf("op %d (%s, payload %q): reply is not one well-formed RESP value (%s): %q", i, op.Kind, trunc(v, 30), x.ParseErr, trunc(string(x.Raw), 120)))
				case x.Extra > 0:
					fail("frame-injection/"+cls, fmt.Sprintf("op %d (%s, payload %q): %d extra frames in the reply: %q", i, op.Kind, trunc(v, 30), x.Extra, trunc(string(x.Raw), 120)))
				}
			}
			if o.Sig != "" {
				break
			}
			if r.IsError() || w.IsError() {
				fail("payload-rejected/"+cls, fmt.Sprintf("op %d (%s, payload %q of %d bytes) was rejected: %s / %s", i, op.Kind, trunc(v, 30), len(v), w, r))
				break
			}
			if r.NoReply {
				fail("no-reply/"+cls, fmt.Sprintf("op %d (%s, payload of %d bytes): no reply", i, op.Kind, len(v)))
				break
			}
			if got != v {
				fail("truncated-payload/"+cls, fmt.Sprintf("op %d (%s): stored %d bytes %q, read back %d bytes %q", i, op.Kind, len(v), trunc(v, 40), len(got), trunc(got, 40)))
				break
			}
			// the embedded API returns what the wire reply encodes (read-only command on the same state)
			if op.Kind == "string" || op.Kind == "echo" {
				args := []string{"GET", key}
				if op.Kind == "echo" {
					args = []string{"ECHO", v}
				}
				we, ee := tcp.DoSync(args...), emb.DoSync(args...)
				if p.K("proto") == 2 && we.String() != ee.String() {
					fail("embedded-mismatch/"+cls, fmt.Sprintf("op %d %q: wire reply %s, embedded result %s", i, trunc(fmt.Sprint(args), 60), trunc(we.String(), 80), trunc(ee.String(), 80)))
				}
			}
		}
		o.Class = "payload|" + strings.Join(classes, ",")
		o.Sample = map[string]any{"classes": classes}
		o.Stats = s.Stats
	})
	if br.panicVal != nil && o.Sig == "" {
		o.Sig = "C12/harness-panic/" + topRepoFrame(br.stack)
		o.Detail = fmt.Sprintf("%v\n%s", br.panicVal, br.stack)
	}
	return o
}
