package dsim

// C18 — Pub/Sub: exactly-once, in-order delivery to current subscribers only.

import (
	"fmt"
	"path"
	"sort"
	"strconv"
	"strings"
	"testing"
)

func init() {
	register(&PropDef{
		ID: "C18",
		Rule: "plan = histories of SUBSCRIBE/PSUBSCRIBE/UNSUBSCRIBE/PUNSUBSCRIBE (with and without arguments) on 2-4 subscriber connections, PUBLISH bursts with unique payloads from 1-2 publishers, PUBSUB CHANNELS/NUMSUB/NUMPAT probes; the channel goroutines and the per-subscriber delivery goroutines are scheduled by the dice; " +
			"non-trivial = at least one message had >=1 recipient; distinct = hash of (command-name sequence, delivery interleaving)",
		Gen:  genC18,
		Run:  runC18,
		Real: []string{"pubsub.PubSub (Subscribe/Unsubscribe/Publish/Channels/NumSub/NumPat)", "pubsub.Channel goroutine and per-message delivery goroutines", "handleConnection", "resp.Conn writes to subscriber connections"},
		Stub: []string{"TCP sockets (simconn)", "goroutine scheduler choice for the delivery goroutines"},
		Assumptions: []string{
			"a connection subscribed to a channel and to a matching pattern receives one frame per subscription (as redis does)",
			"commands themselves run to completion one at a time in this profile; only the delivery goroutines are interleaved",
		},
	})
}

var c18Channels = []string{"news", "nest", "alpha"}
var c18Patterns = []string{"ne*", "*", "a?pha", "{news,alpha}", "ne{ws,st}", "[an]e*", "{nest,al*}", "news", "alpha"}

func genC18(r *Rng, tier string, idx int) *Plan {
	p := &Plan{Profile: "pubsub", Knobs: map[string]int64{}, SKnobs: map[string]string{}}
	if idx%1200 == 7 {
		// more messages than a channel's queue holds, published while the channel does not run (prop_c18_flood.go)
		p.Profile = "flood"
		p.Knobs["n"] = int64(4100 + r.Intn(700))
		return p
	}
	nsub := r.Range(2, 4)
	npub := r.Range(1, 2)
	p.Knobs["subs"], p.Knobs["pubs"] = int64(nsub), int64(npub)
	n := r.Range(6, 24)
	if tier == "thorough" {
		n = r.Range(6, 60)
	}
	seq := 0
	for i := 0; i < n; i++ {
		c := r.Intn(nsub)
		switch x := r.Intn(100); {
		case x < 22:
			p.Ops = append(p.Ops, Op{C: c, Args: append([]string{"SUBSCRIBE"}, pickSome(r, c18Channels, 1, 2)...)})
		case x < 34:
			p.Ops = append(p.Ops, Op{C: c, Args: append([]string{"PSUBSCRIBE"}, pickSome(r, c18Patterns, 1, 2)...)})
		case x < 44:
			p.Ops = append(p.Ops, Op{C: c, Args: append([]string{"UNSUBSCRIBE"}, pickSome(r, c18Channels, 0, 2)...)})
		case x < 50:
			p.Ops = append(p.Ops, Op{C: c, Args: append([]string{"PUNSUBSCRIBE"}, pickSome(r, c18Patterns, 0, 1)...)})
		case x < 85:
			// burst
			pb := r.Intn(npub)
			ch := Pick(r, c18Channels)
			for j, m := 0, r.Range(1, 5); j < m; j++ {
				seq++
				p.Ops = append(p.Ops, Op{Kind: "publish", C: pb, Args: []string{"PUBLISH", ch, fmt.Sprintf("p%d-%d", pb, seq)}})
			}
		case x < 92:
			p.Ops = append(p.Ops, Op{Kind: "deliver", N: int64(r.Range(1, 8))})
		case x < 95:
			// two connections subscribe to a channel that does not exist yet at the same moment (the steps of the two
			// SUBSCRIBE commands are interleaved by the dice at the pub/sub locks)
			p.Ops = append(p.Ops, Op{Kind: "subrace", C: c, N: int64(r.Intn(nsub)), Args: []string{Pick(r, []string{"SUBSCRIBE", "SUBSCRIBE", "PSUBSCRIBE"}), fmt.Sprintf("race%d", i)}})
		case x < 97:
			// the subscriber's connection is closed by the client (or drops); later commands of that
			// subscriber arrive on a new connection
			p.Ops = append(p.Ops, Op{Kind: "disconnect", C: c})
		default:
			p.Ops = append(p.Ops, Op{Kind: "probe", N: int64(r.Intn(3))})
		}
	}
	p.Knobs["drain_each"] = int64(r.Intn(2))
	p.Dice = drawDice(r, 256)
	return p
}

// names that are both a channel of the universe and (literally) a pattern of it
var literalPattern = map[string]bool{"news": true, "alpha": true}

func pickSome(r *Rng, from []string, lo, hi int) []string {
	n := r.Range(lo, hi)
	out := []string{}
	for i := 0; i < n; i++ {
		out = append(out, Pick(r, from))
	}
	return out
}

type c18Sub struct {
	chans map[string]bool
	pats  map[string]bool
}

func (s *c18Sub) total() int { return len(s.chans) + len(s.pats) }

type c18Expect struct { // what one subscription of one connection must receive, per publisher, in order
	msgs map[int][]string
}

// globMatch: shell-style matching with {a,b} alternation (expanded first), ?, * and character classes.
func globMatch(pat, name string) bool {
	for _, alt := range expandBraces(pat) {
		if ok, err := path.Match(alt, name); err == nil && ok {
			return true
		}
	}
	return false
}

func expandBraces(pat string) []string {
	i := strings.IndexByte(pat, '{')
	if i < 0 {
		return []string{pat}
	}
	j := strings.IndexByte(pat[i:], '}')
	if j < 0 {
		return []string{pat}
	}
	j += i
	var out []string
	for _, alt := range strings.Split(pat[i+1:j], ",") {
		out = append(out, expandBraces(pat[:i]+alt+pat[j+1:])...)
	}
	return out
}

func runC18(t *testing.T, p *Plan) *Outcome {
	if p.Profile == "flood" {
		return runC18Flood(t, p)
	}
	o := &Outcome{Trivial: true}
	var names []string
	fail := func(sig, detail string) {
		if o.Sig == "" {
			o.Sig, o.Detail = "C18/"+sig, detail
		}
	}
	br := RunBubble(t, func() {
		s := NewSim()
		s.logOn = true
		s.install()
		defer s.uninstall()
		dice := p.NewDice()
		inst, err := s.Boot(1, BaseConfig)
		if err != nil {
			fail("boot-failed", fmt.Sprint(err))
			return
		}
		s.sites = map[string]bool{"pubsub.dequeue": true, "pubsub.deliver": true}
		nsub, npub := int(p.K("subs")), int(p.K("pubs"))
		subs := make([]*Client, nsub)
		model := make([]*c18Sub, nsub)
		// expected[c][subscription name] -> per publisher ordered payloads
		expected := make([]map[string]*c18Expect, nsub)
		streams := make([][]Reply, nsub)
		rest := make([][]byte, nsub)
		for i := range subs {
			subs[i] = s.NewTCPClient(inst, fmt.Sprintf("s%d", i))
			model[i] = &c18Sub{chans: map[string]bool{}, pats: map[string]bool{}}
			expected[i] = map[string]*c18Expect{}
		}
		pubs := make([]*Client, npub)
		for i := range pubs {
			if i == 0 {
				pubs[i] = s.NewTCPClient(inst, fmt.Sprintf("p%d", i))
			} else {
				pubs[i] = s.NewEmbeddedClient(inst, fmt.Sprintf("p%d", i))
			}
		}
		probe := s.NewTCPClient(inst, "probe")
		var ghosts []*c18Sub // subscriptions that connections held when they were closed
		incarnation := make([]int, nsub)
		// subscribers counted the way a server that forgets to drop closed connections would count them
		withGhosts := func(f func(m *c18Sub) bool) int {
			n := 0
			for _, g := range ghosts {
				if f(g) {
					n++
				}
			}
			return n
		}
		// pull whatever arrived on subscriber c into its frame stream
		pull := func(c int) bool {
			rest[c] = append(rest[c], subs[c].conn.Take()...)
			frames, tail, err := ParseAll(rest[c])
			if err != nil {
				fail("malformed-frame", fmt.Sprintf("subscriber %d received bytes that are not RESP: %v: %q", c, err, trunc(string(rest[c]), 200)))
				return false
			}
			rest[c] = tail
			streams[c] = append(streams[c], frames...)
			return true
		}
		deliver := func(n int) {
			for i := 0; i < n; i++ {
				parked := s.ParkedTasks()
				if len(parked) == 0 {
					return
				}
				tk := parked[dice.Next(len(parked))]
				s.noteChoice(len(parked), tk.Site)
				s.Release(tk)
			}
		}
		sendRaw := func(c int, args []string) { // subscriber command: reply frames arrive in the stream
			subs[c].conn.Write(EncodeCmd(args...))
			s.Settle()
		}
		strict := p.K("drain_each") == 1 && (Avoiding(p, "C18/reordered") || Avoiding(p, "C18/lost") || Avoiding(p, "C18/delivered-to-unsubscribed"))
		// compare what connection c received with what its subscriptions had to receive (final: everything was
		// drained; otherwise the connection is being closed and undelivered messages are legitimately lost)
		compare := func(c int, final bool) {
			if !pull(c) {
				return
			}
			got := map[string]map[int][]string{} // subscription name -> publisher -> payloads
			for _, f := range streams[c] {
				if len(f.Elems) == 3 && f.Elems[0].Text() == "message" {
					name, payload := f.Elems[1].Text(), f.Elems[2].Text()
					pb := 0
					fmt.Sscanf(payload, "p%d-", &pb)
					if got[name] == nil {
						got[name] = map[int][]string{}
					}
					got[name][pb] = append(got[name][pb], payload)
				}
			}
			namesSeen := map[string]bool{}
			for n := range got {
				namesSeen[n] = true
			}
			for n := range expected[c] {
				namesSeen[n] = true
			}
			for _, n := range keysOf(namesSeen) {
				for pb := 0; pb < npub; pb++ {
					var g, w []string
					if got[n] != nil {
						g = got[n][pb]
					}
					if expected[c][n] != nil {
						w = expected[c][n].msgs[pb]
					}
					if equalStrings(g, w) {
						continue
					}
					cls := classifyDelivery(g, w)
					if cls == "duplicated" && !strict && literalPattern[n] {
						// a channel and a pattern spelled the same deliver frames under the same name: a second frame may
						// come from the other subscription having been (re)created before the asynchronous delivery ran -
						// the recorded asynchronous-delivery finding, not a duplicate
						cls = "delivered-to-unsubscribed"
					}
					if !final && (cls == "lost" || cls == "reordered") {
						continue // the connection was closed: messages still on their way to it are legitimately lost
					}
					if strict {
						// every message was fully delivered before the next command ran: the asynchronous-delivery
						// findings cannot explain this
						cls = "strict/" + cls
					}
					fail(cls, fmt.Sprintf("connection %d, subscription %q, publisher %d: received %v, expected %v", c, n, pb, g, w))
				}
			}
		}
		var afterCommand func(i int, op Op, c int, mark int)
		drainNow := false
		// afterCommand checks the confirmations subscriber c received for op (frames since mark) and updates the model
		afterCommand = func(i int, op Op, c int, mark int) {
			name := strings.ToUpper(op.Args[0])
			if subs[c].SrvPanic != "" {
				fail("panic/"+name, subs[c].SrvPanic)
				return
			}
			if !pull(c) {
				return
			}
			// confirmations = frames since mark that are not message pushes
			var conf []Reply
			for _, f := range streams[c][mark:] {
				fl := flattenConf(f)
				conf = append(conf, fl...)
			}
			m := model[c]
			isPat := name == "PSUBSCRIBE" || name == "PUNSUBSCRIBE"
			var wantNames []string
			var wantCounts []int
			switch name {
			case "SUBSCRIBE", "PSUBSCRIBE":
				for _, ch := range op.Args[1:] {
					if isPat {
						m.pats[ch] = true
					} else {
						m.chans[ch] = true
					}
					wantNames = append(wantNames, ch)
					wantCounts = append(wantCounts, m.total())
				}
			case "UNSUBSCRIBE", "PUNSUBSCRIBE":
				targets := op.Args[1:]
				if len(targets) == 0 {
					set := m.chans
					if isPat {
						set = m.pats
					}
					targets = keysOf(set)
				}
				for _, ch := range targets {
					had := m.chans[ch]
					if isPat {
						had = m.pats[ch]
						delete(m.pats, ch)
					} else {
						delete(m.chans, ch)
					}
					if had || len(op.Args) > 1 {
						wantNames = append(wantNames, ch)
						wantCounts = append(wantCounts, m.total())
					}
				}
			}
			// check confirmations: one per channel (order free for unsubscribe-all), right names
			var gotNames []string
			for _, f := range conf {
				if len(f.Elems) == 3 && strings.EqualFold(f.Elems[0].Text(), name) {
					gotNames = append(gotNames, f.Elems[1].Text())
				}
			}
			if name == "PUNSUBSCRIBE" && len(op.Args) > 1 {
				// Whether PUNSUBSCRIBE <pattern> also drops channel subscriptions whose NAME matches the pattern is
				// not defined by the documentation (the pinned tree does it on purpose): the model follows the
				// confirmations, provided every dropped name matches one of the patterns given.
				for _, gn := range gotNames {
					ok := false
					for _, pat := range op.Args[1:] {
						if gn == pat || globMatch(pat, gn) {
							ok = true
						}
					}
					if !ok {
						fail("confirmation/punsubscribe", fmt.Sprintf("op %d %q confirmed dropping %q which matches none of the patterns", i, op.Args, gn))
					}
					delete(m.chans, gn)
					delete(m.pats, gn)
				}
			}
			a, b := append([]string{}, gotNames...), append([]string{}, wantNames...)
			if strings.HasSuffix(name, "UNSUBSCRIBE") {
				// unsubscribing from something one is not subscribed to may or may not be confirmed
				a, b = filterIn(a, wantNames), filterIn(b, gotNames)
				sort.Strings(a)
				sort.Strings(b)
			}
			if !equalStrings(a, b) && !strings.HasSuffix(name, "UNSUBSCRIBE") {
				fail("confirmation/"+strings.ToLower(name), fmt.Sprintf("op %d %q on connection %d: confirmations for %v, expected one per channel %v", i, op.Args, c, gotNames, wantNames))
				return
			}
			// running counts (subscribe family only: unsubscribe confirmations of the pinned tree are recorded as a finding when they disagree)
			k := 0
			for _, f := range conf {
				if len(f.Elems) == 3 && strings.EqualFold(f.Elems[0].Text(), name) && k < len(wantCounts) && !strings.HasSuffix(name, "UNSUBSCRIBE") {
					if got, _ := strconv.Atoi(f.Elems[2].Text()); got != wantCounts[k] {
						fail("confirmation-count/"+strings.ToLower(name), fmt.Sprintf("op %d %q on connection %d: confirmation %d carries count %d, the connection now has %d subscriptions", i, op.Args, c, k+1, got, wantCounts[k]))
					}
					k++
				}
			}
		}
		for i, op := range p.Ops {
			if o.Sig != "" {
				break
			}
			if drainNow {
				deliver(100000)
				drainNow = false
			}
			switch op.Kind {
			case "deliver":
				deliver(int(op.N))
			case "subrace":
				if len(op.Args) != 2 || nsub < 2 {
					continue
				}
				c1, c2 := op.C%nsub, int(op.N)%nsub
				if c1 == c2 {
					c2 = (c1 + 1) % nsub
				}
				names = append(names, "subrace:"+strings.ToUpper(op.Args[0]))
				if !pull(c1) || !pull(c2) {
					break
				}
				m1, m2 := len(streams[c1]), len(streams[c2])
				s.ParkLocks = map[string]bool{"pubsub.channels": true, "pubsub.subscribers": true}
				// one server goroutine at a time reaches its first scheduling point (two running in parallel inside
				// one step would make the run depend on the Go scheduler)
				subs[c1].conn.Write(EncodeCmd(op.Args...))
				s.Settle()
				subs[c2].conn.Write(EncodeCmd(op.Args...))
				s.Settle()
				for st := 0; st < 400; st++ {
					var cands []*Task
					for _, tk := range s.ParkedTasks() {
						if strings.HasPrefix(tk.Site, "lock.") || strings.HasPrefix(tk.Site, "rlock.") {
							cands = append(cands, tk)
						}
					}
					if len(cands) == 0 {
						break
					}
					tk := cands[dice.Next(len(cands))]
					s.noteChoice(len(cands), tk.Site)
					s.Release(tk)
				}
				s.ParkLocks = nil
				afterCommand(i, op, c1, m1)
				afterCommand(i, op, c2, m2)
				if o.Sig != "" {
					break
				}
				// one channel object, two subscribers
				ch := op.Args[1]
				if strings.EqualFold(op.Args[0], "SUBSCRIBE") {
					r := probe.DoFiltered("PUBSUB", "NUMSUB", ch)
					if flat := flatten(r.Reply); r.IsError() || len(flat) != 2 || flat[1].Text() != "2" {
						fail("subscribe-race/NUMSUB", fmt.Sprintf("op %d: connections %d and %d subscribed to the new channel %s at the same moment; PUBSUB NUMSUB answers %s, 2 connections are subscribed", i, c1, c2, ch, r))
					}
				}
				r := probe.DoFiltered("PUBSUB", "CHANNELS", ch)
				n := 0
				for _, e := range r.Reply.Elems {
					if e.Text() == ch {
						n++
					}
				}
				if n > 1 {
					fail("subscribe-race/CHANNELS", fmt.Sprintf("op %d: connections %d and %d subscribed to the new channel %s at the same moment; PUBSUB CHANNELS lists it %d times", i, c1, c2, ch, n))
				}
			case "disconnect":
				c := op.C % nsub
				names = append(names, "disconnect")
				compare(c, false)
				if model[c].total() > 0 && Avoiding(p, "C18/stale-subscriber") {
					// open finding: a closed connection stays subscribed. While it is open the client unsubscribes
					// from everything before it closes, so that the rest of the history is still checked.
					sendRaw(c, []string{"UNSUBSCRIBE"})
					sendRaw(c, []string{"PUNSUBSCRIBE"})
					model[c] = &c18Sub{chans: map[string]bool{}, pats: map[string]bool{}}
					o.Skipped++
				}
				if model[c].total() > 0 {
					ghosts = append(ghosts, model[c])
					s.Probe("closed-with-subscriptions")
				}
				subs[c].Close()
				s.Settle()
				s.Stats.FaultsFired["connection-closed"]++
				incarnation[c]++
				subs[c] = s.NewTCPClient(inst, fmt.Sprintf("s%d.%d", c, incarnation[c]))
				model[c] = &c18Sub{chans: map[string]bool{}, pats: map[string]bool{}}
				expected[c] = map[string]*c18Expect{}
				streams[c], rest[c] = nil, nil
			case "publish":
				pb := op.C % npub
				names = append(names, "PUBLISH")
				r := pubs[pb].DoFiltered(op.Args...)
				if r.IsError() || r.Panic != "" {
					fail("publish-failed", fmt.Sprintf("op %d %q: %s", i, op.Args, r))
					break
				}
				if strict {
					// open findings: delivery is asynchronous (per-message goroutines, subscriber set read at
					// dequeue time). In half of the runs every message is fully delivered before the next command,
					// so that anything else that goes wrong with delivery is not hidden behind those findings.
					drainNow = true
				}
				ch, payload := op.Args[1], op.Args[2]
				for c := 0; c < nsub; c++ {
					for name := range model[c].chans {
						if name == ch {
							exp := expected[c][name]
							if exp == nil {
								exp = &c18Expect{msgs: map[int][]string{}}
								expected[c][name] = exp
							}
							exp.msgs[pb] = append(exp.msgs[pb], payload)
							o.Trivial = false
						}
					}
					for pat := range model[c].pats {
						if globMatch(pat, ch) {
							exp := expected[c][pat]
							if exp == nil {
								exp = &c18Expect{msgs: map[int][]string{}}
								expected[c][pat] = exp
							}
							exp.msgs[pb] = append(exp.msgs[pb], payload)
							o.Trivial = false
						}
					}
				}
			case "probe":
				names = append(names, "PUBSUB")
				switch op.N {
				case 0:
					if Avoiding(p, "C18/introspection:CHANNELS") {
						anyPat := false
						for c := 0; c < nsub; c++ {
							if len(model[c].pats) > 0 {
								anyPat = true
							}
						}
						if anyPat {
							o.Skipped++
							break // open finding: patterns are listed as channels
						}
					}
					r := probe.DoFiltered("PUBSUB", "CHANNELS")
					want := map[string]bool{}
					for c := 0; c < nsub; c++ {
						for ch := range model[c].chans {
							want[ch] = true
						}
					}
					got := map[string]bool{}
					for _, e := range r.Reply.Elems {
						got[e.Text()] = true
					}
					if !r.IsError() && !sameSet(got, want) && len(ghosts) > 0 {
						stale := map[string]bool{}
						for ch := range want {
							stale[ch] = true
						}
						for _, g := range ghosts {
							for ch := range g.chans {
								stale[ch] = true
							}
						}
						if sameSet(got, stale) {
							fail("stale-subscriber", fmt.Sprintf("op %d PUBSUB CHANNELS = %s lists channels whose only subscribers are connections that were closed; active channels are %v", i, r, keysOf(want)))
						}
					}
					if r.IsError() || !sameSet(got, want) {
						fail("introspection:CHANNELS", fmt.Sprintf("op %d PUBSUB CHANNELS = %s, active channels are %v", i, r, keysOf(want)))
					}
				case 1:
					r := probe.DoFiltered(append([]string{"PUBSUB", "NUMSUB"}, c18Channels...)...)
					flat := flatten(r.Reply)
					for k, ch := range c18Channels {
						n := 0
						for c := 0; c < nsub; c++ {
							if model[c].chans[ch] {
								n++
							}
						}
						if n == 0 && !r.IsError() && len(flat) == 2*len(c18Channels) {
							// a name that only exists as a PATTERN subscription reports that pattern's subscribers (pinned by
							// Test_HandleSubscribe, part of the recorded introspection finding): accepted
							np := 0
							for c := 0; c < nsub; c++ {
								if model[c].pats[ch] {
									np++
								}
							}
							if np > 0 && flat[2*k+1].Text() == strconv.Itoa(np) {
								continue
							}
						}
						if stale := n + withGhosts(func(m *c18Sub) bool { return m.chans[ch] }); stale != n && !r.IsError() && len(flat) == 2*len(c18Channels) && flat[2*k+1].Text() == strconv.Itoa(stale) {
							fail("stale-subscriber", fmt.Sprintf("op %d PUBSUB NUMSUB %v = %s counts %d subscribers of %s, but only %d of them are still connected", i, c18Channels, r, stale, ch, n))
							break
						}
						if r.IsError() || len(flat) != 2*len(c18Channels) || flat[2*k].Text() != ch || flat[2*k+1].Text() != strconv.Itoa(n) {
							fail("introspection:NUMSUB", fmt.Sprintf("op %d PUBSUB NUMSUB %v = %s, %s has %d subscribers", i, c18Channels, r, ch, n))
							break
						}
					}
				case 2:
					r := probe.DoFiltered("PUBSUB", "NUMPAT")
					pats := map[string]bool{}
					for c := 0; c < nsub; c++ {
						for pt := range model[c].pats {
							pats[pt] = true
						}
					}
					if len(ghosts) > 0 {
						stale := map[string]bool{}
						for pt := range pats {
							stale[pt] = true
						}
						for _, g := range ghosts {
							for pt := range g.pats {
								stale[pt] = true
							}
						}
						if got, ok := intReply(r); ok && got != int64(len(pats)) && got == int64(len(stale)) {
							fail("stale-subscriber", fmt.Sprintf("op %d PUBSUB NUMPAT = %s counts patterns whose only subscribers are connections that were closed (%d patterns have connected subscribers)", i, r, len(pats)))
						}
					}
					if got, ok := intReply(r); !ok || got != int64(len(pats)) {
						fail("introspection:NUMPAT", fmt.Sprintf("op %d PUBSUB NUMPAT = %s, %d patterns have subscribers", i, r, len(pats)))
					}
				}
			default: // subscriber command
				c := op.C % nsub
				name := strings.ToUpper(op.Args[0])
				names = append(names, name)
				if !pull(c) {
					break
				}
				mark := len(streams[c])
				sendRaw(c, op.Args)
				afterCommand(i, op, c, mark)
			}
		}
		// ---- drain all deliveries, then compare what every subscription received
		if o.Sig == "" {
			for r := 0; r < 20000; r++ {
				parked := s.ParkedTasks()
				if len(parked) == 0 {
					break
				}
				tk := parked[dice.Next(len(parked))]
				s.noteChoice(len(parked), tk.Site)
				s.Release(tk)
			}
			for c := 0; c < nsub && o.Sig == ""; c++ {
				compare(c, true)
			}
		}
		o.Stats = s.Stats
		o.Sched = s.schedHash
		o.Log = s.Log
	})
	if br.panicVal != nil && o.Sig == "" {
		o.Sig = "C18/panic/" + topRepoFrame(br.stack)
		o.Detail = fmt.Sprintf("%v\n%s", br.panicVal, br.stack)
	}
	o.Class = strings.Join(names, ",")
	o.Sample = map[string]any{"commands": names}
	return o
}

func classifyDelivery(got, want []string) string {
	gs, ws := map[string]int{}, map[string]int{}
	for _, x := range got {
		gs[x]++
	}
	for _, x := range want {
		ws[x]++
	}
	for x, n := range gs {
		if n > 1 && ws[x] <= 1 {
			return "duplicated"
		}
		if ws[x] == 0 {
			return "delivered-to-unsubscribed"
		}
	}
	for x := range ws {
		if gs[x] == 0 {
			return "lost"
		}
	}
	return "reordered"
}

func flatten(r Reply) []Reply {
	var out []Reply
	for _, e := range r.Elems {
		if len(e.Elems) > 0 {
			out = append(out, flatten(e)...)
		} else {
			out = append(out, e)
		}
	}
	return out
}

// flattenConf: a confirmation is a 3-element array; the pinned tree wraps unsubscribe confirmations in an outer array.
func flattenConf(f Reply) []Reply {
	if len(f.Elems) == 3 && len(f.Elems[0].Elems) == 0 {
		return []Reply{f}
	}
	var out []Reply
	for _, e := range f.Elems {
		if len(e.Elems) == 3 {
			out = append(out, e)
		}
	}
	return out
}

func sameSet(a, b map[string]bool) bool {
	if len(a) != len(b) {
		return false
	}
	for k := range a {
		if !b[k] {
			return false
		}
	}
	return true
}

func keysOf(m map[string]bool) []string {
	out := make([]string, 0, len(m))
	for k := range m {
		out = append(out, k)
	}
	sort.Strings(out)
	return out
}

func filterIn(a, allowed []string) []string {
	set := map[string]bool{}
	for _, x := range allowed {
		set[x] = true
	}
	var out []string
	for _, x := range a {
		if set[x] {
			out = append(out, x)
		}
	}
	return out
}
