package dsim

// Seeded command generation over a small key universe.

import (
	"strconv"
	"strings"
)

type CmdSpec struct {
	Name   string
	Family string // generic string hash list set zset
	Write  bool
	Random bool // reply/effect depends on the server's random source
	Clock  bool // effect depends on the server clock (relative expiry)
	Gen    func(r *Rng, g *GenCfg) []string
}

type GenCfg struct {
	Keys     []string
	Families map[string]bool // nil = all
	Writes   bool            // only write commands
	NoRandom bool
	NoClock  bool
	NoFlush  bool
	Only     map[string]bool // if set: only these command names
	Exclude  map[string]bool
	Vals     []string
	NowMs    int64 // for absolute expiry generation
	specs    []*CmdSpec
}

var defaultVals = []string{"v", "abc", "hello world", "x", "y", "z", "a1", "b2", "", "long-" + strings.Repeat("q", 40)}
var intVals = []string{"0", "1", "2", "5", "-3", "10", "100", "-1"}
var floatVals = []string{"1.5", "-2.25", "0.5", "3", "10"}
var members = []string{"a", "b", "c", "d", "e", "f"}
var fields = []string{"f1", "f2", "f3", "f4"}
var scores = []string{"1", "2", "2", "3.5", "-1", "0", "10"}

func (g *GenCfg) key(r *Rng) string { return Pick(r, g.Keys) }
func (g *GenCfg) val(r *Rng) string {
	if len(g.Vals) > 0 {
		return Pick(r, g.Vals)
	}
	switch r.Intn(4) {
	case 0:
		return Pick(r, intVals)
	case 1:
		if r.Chance(0.3) {
			return Pick(r, floatVals)
		}
	}
	return Pick(r, defaultVals)
}
func mem(r *Rng) string { return Pick(r, members) }
func mems(r *Rng, lo, hi int) []string {
	n := r.Range(lo, hi)
	out := make([]string, n)
	for i := range out {
		out[i] = mem(r)
	}
	return out
}
func idx(r *Rng) string  { return strconv.Itoa(r.Range(-4, 4)) }
func cnt(r *Rng) string  { return strconv.Itoa(r.Range(-3, 4)) }
func pcnt(r *Rng) string { return strconv.Itoa(r.Range(1, 3)) }
func keysN(r *Rng, g *GenCfg, lo, hi int) []string {
	n := r.Range(lo, hi)
	out := make([]string, n)
	for i := range out {
		out[i] = g.key(r)
	}
	return out
}
func cat(parts ...[]string) []string {
	var out []string
	for _, p := range parts {
		out = append(out, p...)
	}
	return out
}
func one(s ...string) []string { return s }

func scoreBound(r *Rng) string {
	switch r.Intn(6) {
	case 0:
		return "-inf"
	case 1:
		return "+inf"
	case 2:
		return "(" + Pick(r, scores)
	}
	return Pick(r, scores)
}
func lexBound(r *Rng) string {
	switch r.Intn(5) {
	case 0:
		return "-"
	case 1:
		return "+"
	case 2:
		return "(" + mem(r)
	}
	return "[" + mem(r)
}

var allSpecs = []*CmdSpec{
	// ---- generic / string
	{Name: "SET", Family: "generic", Write: true, Gen: func(r *Rng, g *GenCfg) []string {
		a := one("SET", g.key(r), g.val(r))
		switch r.Intn(6) {
		case 0:
			a = append(a, "NX")
		case 1:
			a = append(a, "XX")
		}
		if r.Chance(0.15) {
			a = append(a, "GET")
		}
		return a
	}},
	{Name: "SETEX", Family: "generic", Write: true, Clock: true, Gen: func(r *Rng, g *GenCfg) []string {
		a := one("SET", g.key(r), g.val(r))
		switch r.Intn(2) {
		case 0:
			a = append(a, "EX", strconv.Itoa(r.Range(1, 100)))
		case 1:
			a = append(a, "PX", strconv.Itoa(r.Range(100, 100000)))
		}
		return a
	}},
	{Name: "SETEXAT", Family: "generic", Write: true, Gen: func(r *Rng, g *GenCfg) []string {
		a := one("SET", g.key(r), g.val(r))
		switch r.Intn(2) {
		case 0:
			a = append(a, "EXAT", strconv.FormatInt(g.NowMs/1000+int64(r.Range(1, 200)), 10))
		case 1:
			a = append(a, "PXAT", strconv.FormatInt(g.NowMs+int64(r.Range(100, 200000)), 10))
		}
		return a
	}},
	{Name: "GET", Family: "generic", Gen: func(r *Rng, g *GenCfg) []string { return one("GET", g.key(r)) }},
	{Name: "MSET", Family: "generic", Write: true, Gen: func(r *Rng, g *GenCfg) []string {
		a := one("MSET")
		for i, n := 0, r.Range(1, 3); i < n; i++ {
			a = append(a, g.key(r), g.val(r))
		}
		return a
	}},
	{Name: "MGET", Family: "generic", Gen: func(r *Rng, g *GenCfg) []string { return cat(one("MGET"), keysN(r, g, 1, 3)) }},
	{Name: "DEL", Family: "generic", Write: true, Gen: func(r *Rng, g *GenCfg) []string { return cat(one("DEL"), keysN(r, g, 1, 2)) }},
	{Name: "INCR", Family: "generic", Write: true, Gen: func(r *Rng, g *GenCfg) []string { return one("INCR", g.key(r)) }},
	{Name: "DECR", Family: "generic", Write: true, Gen: func(r *Rng, g *GenCfg) []string { return one("DECR", g.key(r)) }},
	{Name: "INCRBY", Family: "generic", Write: true, Gen: func(r *Rng, g *GenCfg) []string { return one("INCRBY", g.key(r), Pick(r, intVals)) }},
	{Name: "DECRBY", Family: "generic", Write: true, Gen: func(r *Rng, g *GenCfg) []string { return one("DECRBY", g.key(r), Pick(r, intVals)) }},
	{Name: "INCRBYFLOAT", Family: "generic", Write: true, Gen: func(r *Rng, g *GenCfg) []string {
		return one("INCRBYFLOAT", g.key(r), Pick(r, floatVals))
	}},
	{Name: "APPEND", Family: "string", Write: true, Gen: func(r *Rng, g *GenCfg) []string { return one("APPEND", g.key(r), g.val(r)) }},
	{Name: "SETRANGE", Family: "string", Write: true, Gen: func(r *Rng, g *GenCfg) []string {
		return one("SETRANGE", g.key(r), strconv.Itoa(r.Range(0, 6)), g.val(r))
	}},
	{Name: "GETRANGE", Family: "string", Gen: func(r *Rng, g *GenCfg) []string { return one("GETRANGE", g.key(r), idx(r), idx(r)) }},
	{Name: "SUBSTR", Family: "string", Gen: func(r *Rng, g *GenCfg) []string { return one("SUBSTR", g.key(r), idx(r), idx(r)) }},
	{Name: "STRLEN", Family: "string", Gen: func(r *Rng, g *GenCfg) []string { return one("STRLEN", g.key(r)) }},
	{Name: "RENAME", Family: "generic", Write: true, Gen: func(r *Rng, g *GenCfg) []string { return one("RENAME", g.key(r), g.key(r)) }},
	{Name: "GETDEL", Family: "generic", Write: true, Gen: func(r *Rng, g *GenCfg) []string { return one("GETDEL", g.key(r)) }},
	{Name: "GETEX", Family: "generic", Write: true, Clock: true, Gen: func(r *Rng, g *GenCfg) []string {
		a := one("GETEX", g.key(r))
		switch r.Intn(4) {
		case 0:
			a = append(a, "EX", strconv.Itoa(r.Range(1, 100)))
		case 1:
			a = append(a, "PX", strconv.Itoa(r.Range(100, 100000)))
		case 2:
			a = append(a, "PERSIST")
		}
		return a
	}},
	{Name: "TYPE", Family: "generic", Gen: func(r *Rng, g *GenCfg) []string { return one("TYPE", g.key(r)) }},
	{Name: "TOUCH", Family: "generic", Gen: func(r *Rng, g *GenCfg) []string { return cat(one("TOUCH"), keysN(r, g, 1, 2)) }},
	{Name: "EXPIRE", Family: "generic", Write: true, Clock: true, Gen: func(r *Rng, g *GenCfg) []string {
		a := one(Pick(r, []string{"EXPIRE", "PEXPIRE"}), g.key(r))
		if a[0] == "EXPIRE" {
			a = append(a, strconv.Itoa(r.Range(1, 100)))
		} else {
			a = append(a, strconv.Itoa(r.Range(100, 100000)))
		}
		if r.Chance(0.4) {
			a = append(a, Pick(r, []string{"NX", "XX", "GT", "LT"}))
		}
		return a
	}},
	{Name: "EXPIREAT", Family: "generic", Write: true, Gen: func(r *Rng, g *GenCfg) []string {
		a := one(Pick(r, []string{"EXPIREAT", "PEXPIREAT"}), g.key(r))
		if a[0] == "EXPIREAT" {
			a = append(a, strconv.FormatInt(g.NowMs/1000+int64(r.Range(1, 200)), 10))
		} else {
			a = append(a, strconv.FormatInt(g.NowMs+int64(r.Range(100, 200000)), 10))
		}
		if r.Chance(0.4) {
			a = append(a, Pick(r, []string{"NX", "XX", "GT", "LT"}))
		}
		return a
	}},
	{Name: "PERSIST", Family: "generic", Write: true, Gen: func(r *Rng, g *GenCfg) []string { return one("PERSIST", g.key(r)) }},
	{Name: "TTL", Family: "generic", Clock: true, Gen: func(r *Rng, g *GenCfg) []string {
		return one(Pick(r, []string{"TTL", "PTTL"}), g.key(r))
	}},
	{Name: "EXPIRETIME", Family: "generic", Gen: func(r *Rng, g *GenCfg) []string {
		return one(Pick(r, []string{"EXPIRETIME", "PEXPIRETIME"}), g.key(r))
	}},
	{Name: "FLUSHDB", Family: "generic", Write: true, Gen: func(r *Rng, g *GenCfg) []string { return one("FLUSHDB") }},
	{Name: "FLUSHALL", Family: "generic", Write: true, Gen: func(r *Rng, g *GenCfg) []string { return one("FLUSHALL") }},
	{Name: "RANDOMKEY", Family: "generic", Random: true, Gen: func(r *Rng, g *GenCfg) []string { return one("RANDOMKEY") }},
	// ---- hash
	{Name: "HSET", Family: "hash", Write: true, Gen: func(r *Rng, g *GenCfg) []string {
		a := one("HSET", g.key(r))
		for i, n := 0, r.Range(1, 3); i < n; i++ {
			a = append(a, Pick(r, fields), g.val(r))
		}
		return a
	}},
	{Name: "HSETNX", Family: "hash", Write: true, Gen: func(r *Rng, g *GenCfg) []string {
		return one("HSETNX", g.key(r), Pick(r, fields), g.val(r))
	}},
	{Name: "HGET", Family: "hash", Gen: func(r *Rng, g *GenCfg) []string { return one("HGET", g.key(r), Pick(r, fields)) }},
	{Name: "HMGET", Family: "hash", Gen: func(r *Rng, g *GenCfg) []string {
		return one("HMGET", g.key(r), Pick(r, fields), Pick(r, fields))
	}},
	{Name: "HGETALL", Family: "hash", Gen: func(r *Rng, g *GenCfg) []string { return one("HGETALL", g.key(r)) }},
	{Name: "HKEYS", Family: "hash", Gen: func(r *Rng, g *GenCfg) []string { return one("HKEYS", g.key(r)) }},
	{Name: "HVALS", Family: "hash", Gen: func(r *Rng, g *GenCfg) []string { return one("HVALS", g.key(r)) }},
	{Name: "HLEN", Family: "hash", Gen: func(r *Rng, g *GenCfg) []string { return one("HLEN", g.key(r)) }},
	{Name: "HEXISTS", Family: "hash", Gen: func(r *Rng, g *GenCfg) []string { return one("HEXISTS", g.key(r), Pick(r, fields)) }},
	{Name: "HSTRLEN", Family: "hash", Gen: func(r *Rng, g *GenCfg) []string { return one("HSTRLEN", g.key(r), Pick(r, fields)) }},
	{Name: "HDEL", Family: "hash", Write: true, Gen: func(r *Rng, g *GenCfg) []string {
		return one("HDEL", g.key(r), Pick(r, fields), Pick(r, fields))
	}},
	{Name: "HINCRBY", Family: "hash", Write: true, Gen: func(r *Rng, g *GenCfg) []string {
		return one("HINCRBY", g.key(r), Pick(r, fields), Pick(r, intVals))
	}},
	{Name: "HINCRBYFLOAT", Family: "hash", Write: true, Gen: func(r *Rng, g *GenCfg) []string {
		return one("HINCRBYFLOAT", g.key(r), Pick(r, fields), Pick(r, floatVals))
	}},
	{Name: "HRANDFIELD", Family: "hash", Random: true, Gen: func(r *Rng, g *GenCfg) []string {
		a := one("HRANDFIELD", g.key(r))
		if r.Bool() {
			a = append(a, cnt(r))
			if r.Bool() {
				a = append(a, "WITHVALUES")
			}
		}
		return a
	}},
	// ---- list
	{Name: "LPUSH", Family: "list", Write: true, Gen: func(r *Rng, g *GenCfg) []string { return cat(one("LPUSH", g.key(r)), mems(r, 1, 3)) }},
	{Name: "RPUSH", Family: "list", Write: true, Gen: func(r *Rng, g *GenCfg) []string { return cat(one("RPUSH", g.key(r)), mems(r, 1, 3)) }},
	{Name: "LPUSHX", Family: "list", Write: true, Gen: func(r *Rng, g *GenCfg) []string { return cat(one("LPUSHX", g.key(r)), mems(r, 1, 2)) }},
	{Name: "RPUSHX", Family: "list", Write: true, Gen: func(r *Rng, g *GenCfg) []string { return cat(one("RPUSHX", g.key(r)), mems(r, 1, 2)) }},
	{Name: "LPOP", Family: "list", Write: true, Gen: func(r *Rng, g *GenCfg) []string {
		a := one("LPOP", g.key(r))
		if r.Chance(0.3) {
			a = append(a, pcnt(r))
		}
		return a
	}},
	{Name: "RPOP", Family: "list", Write: true, Gen: func(r *Rng, g *GenCfg) []string {
		a := one("RPOP", g.key(r))
		if r.Chance(0.3) {
			a = append(a, pcnt(r))
		}
		return a
	}},
	{Name: "LLEN", Family: "list", Gen: func(r *Rng, g *GenCfg) []string { return one("LLEN", g.key(r)) }},
	{Name: "LRANGE", Family: "list", Gen: func(r *Rng, g *GenCfg) []string { return one("LRANGE", g.key(r), idx(r), idx(r)) }},
	{Name: "LINDEX", Family: "list", Gen: func(r *Rng, g *GenCfg) []string { return one("LINDEX", g.key(r), idx(r)) }},
	{Name: "LSET", Family: "list", Write: true, Gen: func(r *Rng, g *GenCfg) []string { return one("LSET", g.key(r), idx(r), mem(r)) }},
	{Name: "LTRIM", Family: "list", Write: true, Gen: func(r *Rng, g *GenCfg) []string { return one("LTRIM", g.key(r), idx(r), idx(r)) }},
	{Name: "LREM", Family: "list", Write: true, Gen: func(r *Rng, g *GenCfg) []string { return one("LREM", g.key(r), cnt(r), mem(r)) }},
	{Name: "LMOVE", Family: "list", Write: true, Gen: func(r *Rng, g *GenCfg) []string {
		return one("LMOVE", g.key(r), g.key(r), Pick(r, []string{"LEFT", "RIGHT"}), Pick(r, []string{"LEFT", "RIGHT"}))
	}},
	// ---- set
	{Name: "SADD", Family: "set", Write: true, Gen: func(r *Rng, g *GenCfg) []string { return cat(one("SADD", g.key(r)), mems(r, 1, 3)) }},
	{Name: "SREM", Family: "set", Write: true, Gen: func(r *Rng, g *GenCfg) []string { return cat(one("SREM", g.key(r)), mems(r, 1, 2)) }},
	{Name: "SCARD", Family: "set", Gen: func(r *Rng, g *GenCfg) []string { return one("SCARD", g.key(r)) }},
	{Name: "SISMEMBER", Family: "set", Gen: func(r *Rng, g *GenCfg) []string { return one("SISMEMBER", g.key(r), mem(r)) }},
	{Name: "SMISMEMBER", Family: "set", Gen: func(r *Rng, g *GenCfg) []string { return cat(one("SMISMEMBER", g.key(r)), mems(r, 1, 3)) }},
	{Name: "SMEMBERS", Family: "set", Gen: func(r *Rng, g *GenCfg) []string { return one("SMEMBERS", g.key(r)) }},
	{Name: "SUNION", Family: "set", Gen: func(r *Rng, g *GenCfg) []string { return cat(one("SUNION"), keysN(r, g, 1, 3)) }},
	{Name: "SINTER", Family: "set", Gen: func(r *Rng, g *GenCfg) []string { return cat(one("SINTER"), keysN(r, g, 1, 3)) }},
	{Name: "SDIFF", Family: "set", Gen: func(r *Rng, g *GenCfg) []string { return cat(one("SDIFF"), keysN(r, g, 1, 3)) }},
	{Name: "SINTERCARD", Family: "set", Gen: func(r *Rng, g *GenCfg) []string {
		a := cat(one("SINTERCARD"), keysN(r, g, 1, 3))
		if r.Bool() {
			a = append(a, "LIMIT", strconv.Itoa(r.Range(0, 3)))
		}
		return a
	}},
	{Name: "SUNIONSTORE", Family: "set", Write: true, Gen: func(r *Rng, g *GenCfg) []string { return cat(one("SUNIONSTORE", g.key(r)), keysN(r, g, 1, 3)) }},
	{Name: "SINTERSTORE", Family: "set", Write: true, Gen: func(r *Rng, g *GenCfg) []string { return cat(one("SINTERSTORE", g.key(r)), keysN(r, g, 1, 3)) }},
	{Name: "SDIFFSTORE", Family: "set", Write: true, Gen: func(r *Rng, g *GenCfg) []string { return cat(one("SDIFFSTORE", g.key(r)), keysN(r, g, 1, 3)) }},
	{Name: "SMOVE", Family: "set", Write: true, Gen: func(r *Rng, g *GenCfg) []string { return one("SMOVE", g.key(r), g.key(r), mem(r)) }},
	{Name: "SPOP", Family: "set", Write: true, Random: true, Gen: func(r *Rng, g *GenCfg) []string {
		a := one("SPOP", g.key(r))
		if r.Bool() {
			a = append(a, pcnt(r))
		}
		return a
	}},
	{Name: "SRANDMEMBER", Family: "set", Random: true, Gen: func(r *Rng, g *GenCfg) []string {
		a := one("SRANDMEMBER", g.key(r))
		if r.Bool() {
			a = append(a, cnt(r))
		}
		return a
	}},
	// ---- sorted set
	{Name: "ZADD", Family: "zset", Write: true, Gen: func(r *Rng, g *GenCfg) []string {
		a := one("ZADD", g.key(r))
		switch r.Intn(8) {
		case 0:
			a = append(a, "NX")
		case 1:
			a = append(a, "XX")
		case 2:
			a = append(a, "GT")
		case 3:
			a = append(a, "LT")
		}
		if r.Chance(0.2) {
			a = append(a, "CH")
		}
		for i, n := 0, r.Range(1, 3); i < n; i++ {
			a = append(a, Pick(r, scores), mem(r))
		}
		return a
	}},
	{Name: "ZINCRBY", Family: "zset", Write: true, Gen: func(r *Rng, g *GenCfg) []string {
		return one("ZINCRBY", g.key(r), Pick(r, scores), mem(r))
	}},
	{Name: "ZREM", Family: "zset", Write: true, Gen: func(r *Rng, g *GenCfg) []string { return cat(one("ZREM", g.key(r)), mems(r, 1, 2)) }},
	{Name: "ZCARD", Family: "zset", Gen: func(r *Rng, g *GenCfg) []string { return one("ZCARD", g.key(r)) }},
	{Name: "ZSCORE", Family: "zset", Gen: func(r *Rng, g *GenCfg) []string { return one("ZSCORE", g.key(r), mem(r)) }},
	{Name: "ZMSCORE", Family: "zset", Gen: func(r *Rng, g *GenCfg) []string { return cat(one("ZMSCORE", g.key(r)), mems(r, 1, 3)) }},
	{Name: "ZCOUNT", Family: "zset", Gen: func(r *Rng, g *GenCfg) []string { return one("ZCOUNT", g.key(r), scoreBound(r), scoreBound(r)) }},
	{Name: "ZLEXCOUNT", Family: "zset", Gen: func(r *Rng, g *GenCfg) []string { return one("ZLEXCOUNT", g.key(r), lexBound(r), lexBound(r)) }},
	{Name: "ZRANK", Family: "zset", Gen: func(r *Rng, g *GenCfg) []string {
		return one(Pick(r, []string{"ZRANK", "ZREVRANK"}), g.key(r), mem(r))
	}},
	{Name: "ZRANGE", Family: "zset", Gen: func(r *Rng, g *GenCfg) []string {
		a := one("ZRANGE", g.key(r))
		switch r.Intn(3) {
		case 0:
			a = append(a, idx(r), idx(r))
		case 1:
			a = append(a, scoreBound(r), scoreBound(r), "BYSCORE")
		case 2:
			a = append(a, lexBound(r), lexBound(r), "BYLEX")
		}
		if r.Chance(0.25) {
			a = append(a, "REV")
		}
		if len(a) > 4 && r.Chance(0.3) {
			a = append(a, "LIMIT", strconv.Itoa(r.Range(0, 2)), strconv.Itoa(r.Range(-1, 3)))
		}
		if r.Chance(0.3) {
			a = append(a, "WITHSCORES")
		}
		return a
	}},
	{Name: "ZRANGESTORE", Family: "zset", Write: true, Gen: func(r *Rng, g *GenCfg) []string {
		return one("ZRANGESTORE", g.key(r), g.key(r), idx(r), idx(r))
	}},
	{Name: "ZPOPMIN", Family: "zset", Write: true, Gen: func(r *Rng, g *GenCfg) []string {
		a := one(Pick(r, []string{"ZPOPMIN", "ZPOPMAX"}), g.key(r))
		if r.Bool() {
			a = append(a, pcnt(r))
		}
		return a
	}},
	{Name: "ZMPOP", Family: "zset", Write: true, Gen: func(r *Rng, g *GenCfg) []string {
		ks := keysN(r, g, 1, 2)
		a := cat(one("ZMPOP"), ks, one(Pick(r, []string{"MIN", "MAX"})))
		if r.Bool() {
			a = append(a, "COUNT", pcnt(r))
		}
		return a
	}},
	{Name: "ZREMRANGEBYSCORE", Family: "zset", Write: true, Gen: func(r *Rng, g *GenCfg) []string {
		return one("ZREMRANGEBYSCORE", g.key(r), scoreBound(r), scoreBound(r))
	}},
	{Name: "ZREMRANGEBYRANK", Family: "zset", Write: true, Gen: func(r *Rng, g *GenCfg) []string {
		return one("ZREMRANGEBYRANK", g.key(r), idx(r), idx(r))
	}},
	{Name: "ZREMRANGEBYLEX", Family: "zset", Write: true, Gen: func(r *Rng, g *GenCfg) []string {
		return one("ZREMRANGEBYLEX", g.key(r), lexBound(r), lexBound(r))
	}},
	{Name: "ZUNION", Family: "zset", Gen: func(r *Rng, g *GenCfg) []string { return zalg(r, g, Pick(r, []string{"ZUNION", "ZINTER"}), "") }},
	{Name: "ZDIFF", Family: "zset", Gen: func(r *Rng, g *GenCfg) []string {
		a := cat(one("ZDIFF"), keysN(r, g, 1, 3))
		if r.Chance(0.3) {
			a = append(a, "WITHSCORES")
		}
		return a
	}},
	{Name: "ZUNIONSTORE", Family: "zset", Write: true, Gen: func(r *Rng, g *GenCfg) []string {
		return zalg(r, g, Pick(r, []string{"ZUNIONSTORE", "ZINTERSTORE"}), g.key(r))
	}},
	{Name: "ZDIFFSTORE", Family: "zset", Write: true, Gen: func(r *Rng, g *GenCfg) []string {
		return cat(one("ZDIFFSTORE", g.key(r)), keysN(r, g, 1, 3))
	}},
	{Name: "ZRANDMEMBER", Family: "zset", Random: true, Gen: func(r *Rng, g *GenCfg) []string {
		a := one("ZRANDMEMBER", g.key(r))
		if r.Bool() {
			a = append(a, cnt(r))
		}
		return a
	}},
}

func zalg(r *Rng, g *GenCfg, name, dst string) []string {
	ks := keysN(r, g, 1, 3)
	a := one(name)
	if dst != "" {
		a = append(a, dst)
	}
	a = append(a, ks...)
	if r.Chance(0.3) {
		a = append(a, "WEIGHTS")
		for range ks {
			a = append(a, Pick(r, []string{"1", "2", "0.5", "-1"}))
		}
	}
	if r.Chance(0.3) {
		a = append(a, "AGGREGATE", Pick(r, []string{"SUM", "MIN", "MAX"}))
	}
	if dst == "" && r.Chance(0.3) {
		a = append(a, "WITHSCORES")
	}
	return a
}

var specByName = func() map[string]*CmdSpec {
	m := map[string]*CmdSpec{}
	for _, s := range allSpecs {
		m[s.Name] = s
	}
	return m
}()

func (g *GenCfg) prepare() {
	g.specs = g.specs[:0]
	for _, s := range allSpecs {
		if g.Families != nil && !g.Families[s.Family] {
			continue
		}
		if g.Writes && !s.Write {
			continue
		}
		if g.NoRandom && s.Random {
			continue
		}
		if g.NoClock && s.Clock {
			continue
		}
		if g.NoFlush && (s.Name == "FLUSHDB" || s.Name == "FLUSHALL") {
			continue
		}
		if g.Only != nil && !g.Only[s.Name] {
			continue
		}
		if g.Exclude != nil && g.Exclude[s.Name] {
			continue
		}
		g.specs = append(g.specs, s)
	}
}

// Cmd draws one command.
func (g *GenCfg) Cmd(r *Rng) []string {
	if g.specs == nil {
		g.prepare()
	}
	return Pick(r, g.specs).Gen(r, g)
}

// SeedOps draws commands that create keys of every type (dataset seeding).
func (g *GenCfg) SeedOps(r *Rng, n int) []Op {
	creators := []string{"SET", "SET", "HSET", "RPUSH", "SADD", "ZADD", "MSET"}
	var ops []Op
	for i := 0; i < n; i++ {
		s := specByName[Pick(r, creators)]
		a := s.Gen(r, g)
		// strip conditional flags so that the seed actually creates the key
		var b []string
		for _, x := range a {
			switch x {
			case "NX", "XX", "GT", "LT", "CH", "GET":
				continue
			}
			b = append(b, x)
		}
		ops = append(ops, Op{Args: b})
	}
	return ops
}

// CmdKeys returns the key arguments of a generated command (harness-side knowledge, used
// only to classify key relations; never to decide a property).
func CmdKeys(a []string) []string {
	if len(a) < 2 {
		return nil
	}
	switch strings.ToUpper(a[0]) {
	case "MSET":
		var ks []string
		for i := 1; i < len(a); i += 2 {
			ks = append(ks, a[i])
		}
		return ks
	case "MGET", "DEL", "TOUCH", "SUNION", "SINTER", "SDIFF", "SUNIONSTORE", "SINTERSTORE", "SDIFFSTORE", "ZDIFFSTORE":
		return a[1:]
	case "ZDIFF":
		return trimOpts(a[1:])
	case "RENAME", "SMOVE", "LMOVE", "ZRANGESTORE":
		return a[1:3]
	case "SINTERCARD", "ZMPOP":
		return trimOpts(a[1:])
	case "ZUNION", "ZINTER":
		return trimOpts(a[1:])
	case "ZUNIONSTORE", "ZINTERSTORE":
		return cat(one(a[1]), trimOpts(a[2:]))
	case "FLUSHDB", "FLUSHALL", "RANDOMKEY":
		return nil
	}
	return a[1:2]
}

func trimOpts(a []string) []string {
	for i, x := range a {
		switch strings.ToUpper(x) {
		case "WEIGHTS", "AGGREGATE", "WITHSCORES", "MIN", "MAX", "COUNT", "LIMIT":
			return a[:i]
		}
	}
	return a
}
