package dsim

// The simulator core: a testing/synctest bubble, tasks parked at verifhook yield
// points, and a controller that releases exactly one parked task per step.

import (
	"bytes"
	"fmt"
	"os"
	"runtime"
	"sort"
	"strconv"
	"strings"
	"sync"
	"sync/atomic"
	"testing"
	"testing/synctest"
	"time"

	"github.com/echovault/sugardb/verifhook"
)

// goid returns the current goroutine's id (parsed from the stack header).
func goid() uint64 {
	var buf [64]byte
	n := runtime.Stack(buf[:], false)
	// "goroutine 123 [running]:"
	b := buf[:n]
	b = b[len("goroutine "):]
	i := bytes.IndexByte(b, ' ')
	id, _ := strconv.ParseUint(string(b[:i]), 10, 64)
	return id
}

// parentGoid returns the id of the goroutine that created the caller (0 if unknown).
func parentGoid() uint64 {
	buf := make([]byte, 1<<15)
	n := runtime.Stack(buf, false)
	b := buf[:n]
	i := bytes.LastIndex(b, []byte("created by "))
	if i < 0 {
		return 0
	}
	b = b[i:]
	j := bytes.Index(b, []byte(" in goroutine "))
	if j < 0 {
		return 0
	}
	b = b[j+len(" in goroutine "):]
	k := 0
	for k < len(b) && b[k] >= '0' && b[k] <= '9' {
		k++
	}
	id, _ := strconv.ParseUint(string(b[:k]), 10, 64)
	return id
}

// Task is one goroutine of the system under test or of a simulated client.
type Task struct {
	ID          int
	Goid        uint64
	Name        string // for harness-owned tasks
	Site        string // where it is parked
	Bookkeeping bool   // parked at the store lock inside reconcileMemory (accounting pass after a write command)
	Label       string // distinguishes siblings started in one loop (database index, peer address)
	Inst        int    // instance (node) it belongs to
	BirthStep   int
	Parked      bool
	Spins       int
	Owned       bool // spawned by the harness (we know when it finishes)
	Done        bool
	Pass        bool // uncontrolled: hooks return immediately
	kill        bool
	wake        chan struct{}
	waitLock    any // instrumented lock this task is about to request (parked before the request)
	waitWrite   bool
	waitName    string
}

// lockInfo: who holds an instrumented lock (reported by the wrapper's notes).
type lockInfo struct {
	name    string
	writer  *Task
	readers map[*Task]int
}

// Sim is one simulated execution.
type Sim struct {
	mu         sync.Mutex
	ctrl       uint64 // controller goroutine id
	tasks      map[uint64]*Task
	nextID     int
	current    *Task
	curInst    int
	passAll    atomic.Bool
	ksCalls    atomic.Int64           // keyspace-function entries (counted in every mode)
	sites      map[string]bool        // nil = all sites park; else only listed ones
	siteFilter func(site string) bool // if set, decides which sites park (overrides sites)
	Step       int
	Log        []string // event log (controller decisions, notes)
	logOn      bool
	Notes      []string
	reaping    atomic.Bool
	allConns   []*SimConn
	disks      []*Disk
	deadInst   map[int]bool
	rewriting  map[int]bool     // instance currently inside RewriteLog (engine.mut held)
	writing    map[int]bool     // instance whose write-commit mutex is held by some task
	rawFiles   []verifhook.File // AOF files opened while no profile wrapper was installed
	locks      map[any]*lockInfo
	ParkLocks  map[string]bool // instrumented locks (by name) whose acquisitions are scheduling points in this run
	Deadlock   string          // description of a lock cycle among parked tasks, once one was seen
	DeadlockOn string          // the locks of that cycle ("conninfo+store")
	// hooks for profiles
	OnYieldOpp func(site string, t *Task) // fault/crash opportunity at selected yield sites (every mode)
	OnNote     func(ev string, t *Task)
	OnFault    func(site string, t *Task) error
	OnFS       func(kind, path string, b []byte, t *Task)
	WrapFile   func(path string, f verifhook.File, t *Task) verifhook.File
	OnEvict    func(db int, key string, memUsed int64, limit uint64)
	// stats
	Stats Stats
	// schedule hash: FNV over (site) at steps with >=2 choices
	schedHash uint64
	// section monitor
	copyOpen map[int]int
	mutOpen  map[int]int
	Overlap  bool
}

type Stats struct {
	Steps        int
	Releases     int
	ClockAdv     int
	SimTime      time.Duration
	Spins        int
	MultiChoice  int
	FaultsFired  map[string]int
	Probes       map[string]int
	TasksSeen    int
	MaxParked    int
	SiteReleases map[string]int
	EvHash       uint64 // hash of EVERY controller event (released task id and site, parked-task count afterwards, clock advances)
}

func newStats() Stats {
	return Stats{FaultsFired: map[string]int{}, Probes: map[string]int{}, SiteReleases: map[string]int{}}
}

var debugParked = os.Getenv("DSIM_DEBUG_PARKED") != ""

var progressCtr atomic.Int64 // bumped on every controller step; sampled by the real-time watchdog
var curSim atomic.Pointer[Sim]

func progress() { progressCtr.Add(1) }

func NewSim() *Sim {
	s := &Sim{
		tasks:     map[uint64]*Task{},
		deadInst:  map[int]bool{},
		rewriting: map[int]bool{}, writing: map[int]bool{},
		locks:     map[any]*lockInfo{},
		copyOpen:  map[int]int{},
		mutOpen:   map[int]int{},
		Stats:     newStats(),
		schedHash: 1469598103934665603,
	}
	return s
}

func (s *Sim) logf(format string, a ...any) {
	if s.logOn {
		s.Log = append(s.Log, fmt.Sprintf("%d ", s.Step)+fmt.Sprintf(format, a...))
	}
}

// Probe counts a "rare condition reached" event.
func (s *Sim) Probe(name string) { s.Stats.Probes[name]++ }

// install wires the verifhook handlers to this sim. Must be called from the controller goroutine.
func (s *Sim) install() {
	s.ctrl = goid()
	curSim.Store(s)
	clockSkewMs.Store(0)
	os.VerifFSHook = s.hookOSFS
	verifhook.Install(&verifhook.Hooks{
		Yield:     s.hookYield,
		YieldL:    s.hookYieldL,
		Spin:      s.hookSpin,
		Note:      s.hookNote,
		Fault:     s.hookFault,
		FSEvent:   s.hookFS,
		WrapFile:  s.hookWrap,
		LockYield: s.hookLockYield,
		LockNote:  s.hookLockNote,
		ClockOffset: func() time.Duration {
			return time.Duration(clockSkewMs.Load()) * time.Millisecond
		},
		Evict: func(db int, key string, memUsed int64, limit uint64) {
			if s.OnEvict != nil {
				s.OnEvict(db, key, memUsed, limit)
			}
		},
	})
}

// hookOSFS is called (through the overlay of package os) before every mutating file-system operation of any
// goroutine. Operations of the system under test on a simulated disk's directory are crash opportunities of the
// "oskill" mode: the process dies before the operation, whatever the code around it looks like.
func (s *Sim) hookOSFS(op, name, name2 string) {
	if s.reaping.Load() || goid() == s.ctrl {
		return
	}
	s.mu.Lock()
	var d *Disk
	for _, x := range s.disks {
		if x.Mode == "oskill" && x.ArmAt >= 0 && !x.Fired && !s.deadInst[x.Inst] && strings.HasPrefix(name, x.Dir+"/") {
			d = x
		}
	}
	s.mu.Unlock()
	if d == nil {
		return
	}
	base := name[strings.LastIndexByte(name, '/')+1:]
	if strings.Trim(base, "0123456789") == "" {
		base = "N"
	}
	_ = d.opportunity("os." + op + ":" + base)
}

func (s *Sim) uninstall() {
	os.VerifFSHook = nil
	s.reap()
	// descriptors of instances that were never shut down (the run simply ends) must not accumulate
	for _, d := range s.disks {
		d.CloseAll()
	}
	for _, f := range s.rawFiles {
		_ = f.Close()
	}
	s.rawFiles = nil
	verifhook.Install(nil)
	curSim.Store(nil)
	clockSkewMs.Store(0)
}

// taskFor returns (creating if needed) the task of the calling goroutine. s.mu held.
func (s *Sim) taskFor(g uint64) *Task {
	t := s.tasks[g]
	if t == nil {
		s.nextID++
		t = &Task{ID: s.nextID, Goid: g, BirthStep: s.Step, wake: make(chan struct{}, 1)}
		if p := s.tasks[parentGoid()]; p != nil {
			t.Inst = p.Inst
		} else if s.current != nil {
			t.Inst = s.current.Inst
		} else {
			t.Inst = s.curInst
		}
		s.tasks[g] = t
		s.Stats.TasksSeen++
	}
	return t
}

// reap ends the goroutines of the simulated system at the end of a run, as far as they can be reached:
// parked tasks are told to exit, connections are closed, and the fake clock is moved far enough for every
// ticker loop to wake up once and exit at its first hook. Otherwise each run would leave its instances
// reachable for ever (the system under test calls runtime.GC() on every write under a memory limit, so a
// growing heap makes later runs of the same worker process slower and slower).
func (s *Sim) reap() {
	defer func() { _ = recover() }()
	s.reaping.Store(true)
	s.passAll.Store(false)
	s.mu.Lock()
	var parked []*Task
	for _, t := range s.tasks {
		if t.Parked && !t.Done {
			t.kill = true
			t.Parked = false
			parked = append(parked, t)
		}
	}
	conns := s.allConns
	s.allConns = nil
	s.mu.Unlock()
	for _, t := range parked {
		select {
		case t.wake <- struct{}{}:
		default:
		}
	}
	for _, c := range conns {
		_ = c.Close()
	}
	for i := 0; i < 3; i++ {
		synctest.Wait()
		time.Sleep(time.Hour)
	}
	synctest.Wait()
}

func (s *Sim) park(site string, spin bool) { s.parkEx(site, spin, false) }

// holders returns the tasks other than t whose hold on m conflicts with the requested mode. s.mu held.
func (s *Sim) holders(m any, t *Task, write bool) []*Task {
	li := s.locks[m]
	if li == nil {
		return nil
	}
	var out []*Task
	if li.writer != nil && li.writer != t && !li.writer.Done {
		out = append(out, li.writer)
	}
	if write {
		for r := range li.readers {
			if r != t && !r.Done {
				out = append(out, r)
			}
		}
	}
	sort.Slice(out, func(i, j int) bool { return out[i].ID < out[j].ID })
	return out
}

// hookLockYield: scheduling point before an instrumented lock is requested. A task that would have to
// wait for a lock held by a descheduled task (or by the task being stepped right now) is descheduled
// itself, whatever the profile's site filter says: a goroutine blocked on a sync mutex is not durably
// blocked, the bubble would never become quiescent.
func (s *Sim) hookLockYield(m any, name string, write bool) {
	site := "rlock." + name
	if write {
		site = "lock." + name
	}
	g := goid()
	if s.reaping.Load() {
		s.parkEx(site, false, false)
		return
	}
	if g == s.ctrl {
		// the controller itself (a white-box dump between steps) must never block on a lock that a descheduled
		// task holds: the bubble would hang. The run ends here; runPlan decides what it means (a deadlock that was
		// detected, or an inconclusive run).
		s.mu.Lock()
		blocked := len(s.holders(m, nil, write)) > 0
		if blocked {
			s.findDeadlock()
		}
		s.mu.Unlock()
		if blocked {
			lastCtrlBlocked.Store(true)
			panic(ctrlBlocked{name})
		}
		return
	}
	s.mu.Lock()
	t := s.taskFor(g)
	must := false
	for _, h := range s.holders(m, t, write) {
		if h.Parked || h == s.current {
			must = true
		}
	}
	if name != "store" && name != "write" && !must && !s.ParkLocks[name] {
		// profiles opt in to the scheduling points of the other locks (the store lock always was one)
		s.mu.Unlock()
		return
	}
	t.waitLock, t.waitWrite, t.waitName = m, write, name
	optIn := s.ParkLocks[name] // an opted-in lock is a scheduling point whatever the profile's site filter says
	s.mu.Unlock()
	if optIn && !must && !s.passAll.Load() && !t.Pass {
		s.parkForced(site)
	} else {
		s.parkEx(site, false, must)
	}
	s.mu.Lock()
	t.waitLock = nil
	s.mu.Unlock()
}

func (s *Sim) hookLockNote(m any, write bool, acquired bool) {
	g := goid()
	if g == s.ctrl {
		return
	}
	s.mu.Lock()
	defer s.mu.Unlock()
	t := s.taskFor(g)
	li := s.locks[m]
	if li == nil {
		li = &lockInfo{readers: map[*Task]int{}}
		s.locks[m] = li
	}
	switch {
	case write && acquired:
		li.writer = t
	case write:
		if li.writer == t {
			li.writer = nil
		}
	case acquired:
		li.readers[t]++
	default:
		if li.readers[t] <= 1 {
			delete(li.readers, t)
		} else {
			li.readers[t]--
		}
	}
}

// findDeadlock looks for a cycle in the wait-for graph of the parked tasks: every task of the cycle is
// parked in front of an instrumented lock that another task of the cycle holds. None of them can ever run
// again, whatever else happens. s.mu held.
func (s *Sim) findDeadlock() {
	if s.Deadlock != "" {
		return
	}
	var waiters []*Task
	for _, t := range s.tasks {
		if t.Parked && !t.Done && !s.deadInst[t.Inst] && t.waitLock != nil {
			waiters = append(waiters, t)
		}
	}
	if len(waiters) < 2 {
		return
	}
	sort.Slice(waiters, func(i, j int) bool { return waiters[i].ID < waiters[j].ID })
	isWaiter := map[*Task]bool{}
	for _, t := range waiters {
		isWaiter[t] = true
	}
	// colour DFS
	state := map[*Task]int{}
	var stack []*Task
	var cycle []*Task
	var dfs func(t *Task) bool
	dfs = func(t *Task) bool {
		state[t] = 1
		stack = append(stack, t)
		for _, h := range s.holders(t.waitLock, t, t.waitWrite) {
			if !isWaiter[h] {
				continue
			}
			if state[h] == 1 {
				for i, x := range stack {
					if x == h {
						cycle = append([]*Task{}, stack[i:]...)
					}
				}
				return true
			}
			if state[h] == 0 && dfs(h) {
				return true
			}
		}
		stack = stack[:len(stack)-1]
		state[t] = 2
		return false
	}
	for _, t := range waiters {
		if state[t] == 0 && dfs(t) {
			break
		}
	}
	if len(cycle) == 0 {
		return
	}
	names := map[string]bool{}
	var parts []string
	for i, t := range cycle {
		nx := cycle[(i+1)%len(cycle)]
		names[t.waitName] = true
		parts = append(parts, fmt.Sprintf("task t%d (%s) waits for %s, held by t%d", t.ID, t.Site, t.waitName, nx.ID))
	}
	s.Deadlock = strings.Join(parts, "; ")
	s.DeadlockOn = strings.Join(sortedKeys(names), "+")
	lastDeadlock.Store(&deadlockRec{On: s.DeadlockOn, Detail: s.Deadlock})
}

type deadlockRec struct{ Kind, On, Detail string }

// HeldAcrossWait is for the moment at which nothing is runnable and advancing the clock did not help: it reports
// (and records as the run's verdict) a task that holds an instrumented lock while it is blocked outside any
// scheduling point - waiting for something that only the tasks queueing for that very lock can provide.
func (s *Sim) HeldAcrossWait() string {
	s.mu.Lock()
	defer s.mu.Unlock()
	var waiters []*Task
	for _, t := range s.tasks {
		if t.Parked && !t.Done && !s.deadInst[t.Inst] && t.waitLock != nil {
			waiters = append(waiters, t)
		}
	}
	sort.Slice(waiters, func(i, j int) bool { return waiters[i].ID < waiters[j].ID })
	for _, t := range waiters {
		for _, h := range s.holders(t.waitLock, t, t.waitWrite) {
			if h.Parked || h.Done || s.deadInst[h.Inst] {
				continue
			}
			s.Deadlock = fmt.Sprintf("task t%d (%s) waits for the %s lock, held by t%d (%s), which is blocked itself outside any scheduling point and can only be woken by the tasks waiting for that lock; nothing is runnable and the clock was advanced", t.ID, t.Site, t.waitName, h.ID, h.Name)
			s.DeadlockOn = t.waitName
			lastDeadlock.Store(&deadlockRec{Kind: "held-across-wait", On: s.DeadlockOn, Detail: s.Deadlock})
			return s.Deadlock
		}
	}
	return ""
}

// ctrlBlocked is the panic value with which the controller abandons a run in which it would have to wait for a
// lock held by a descheduled task.
type ctrlBlocked struct{ lock string }

var lastCtrlBlocked atomic.Bool

var lastDeadlock atomic.Pointer[deadlockRec]

// parkForced parks at site regardless of the profile's site filter (but not in pass-through mode).
func (s *Sim) parkForced(site string) { s.parkEx2(site, false, false, true) }

func (s *Sim) parkEx(site string, spin bool, must bool) { s.parkEx2(site, spin, must, false) }

func (s *Sim) parkEx2(site string, spin bool, must bool, noFilter bool) {
	if s.reaping.Load() {
		if g := goid(); g != s.ctrl {
			runtime.Goexit()
		}
		return
	}
	if strings.HasPrefix(site, "ks.") {
		s.ksCalls.Add(1)
	}
	if s.OnYieldOpp != nil && oppSites[site] {
		if t := s.callerTask(); t != nil {
			s.OnYieldOpp(site, t)
		}
	}
	g := goid()
	if g == s.ctrl {
		return
	}
	// a task that would block on the write-commit mutex held by a parked task must park whatever the mode
	// (a goroutine blocked on a sync.Mutex is not durably blocked: the bubble would never become quiescent)
	mustPark := must
	if site == "lock.write" {
		s.mu.Lock()
		mustPark = mustPark || s.writing[s.taskFor(g).Inst]
		s.mu.Unlock()
	}
	if s.passAll.Load() && !mustPark {
		return
	}
	s.mu.Lock()
	t := s.taskFor(g)
	if t.Pass && !mustPark || !mustPark && !noFilter && ((s.siteFilter != nil && !spin && !s.siteFilter(site)) || (s.siteFilter == nil && s.sites != nil && !s.sites[site] && !spin)) {
		s.mu.Unlock()
		return
	}
	t.Bookkeeping = false
	if site == "lock.store" {
		buf := make([]byte, 4096)
		stack := buf[:runtime.Stack(buf, false)]
		// the re-measuring pass after a write command (memory accounting only, no effect on the dataset)
		t.Bookkeeping = bytes.Contains(stack, []byte("reconcileMemory"))
	}
	if s.deadInst[t.Inst] {
		// instance crashed: this goroutine must not run any more of its code
		s.mu.Unlock()
		runtime.Goexit()
	}
	t.Site = site
	t.Parked = true
	if spin {
		t.Spins++
		s.Stats.Spins++
	} else {
		t.Spins = 0
	}
	s.mu.Unlock()
	<-t.wake
	if t.kill {
		runtime.Goexit()
	}
}

// yield sites that double as fault/crash opportunities
var oppSites = map[string]bool{"cmd.after_handler": true, "cmd.after_log": true, "rewrite.after_preamble": true, "getState.done": true, "rewrite.lock": true}

func holdsConnInfoLock(stack []byte) bool {
	return bytes.Contains(stack, []byte("getHandlerFuncParams.func")) && bytes.Contains(stack, []byte("SetConnectionInfo")) ||
		bytes.Contains(stack, []byte("modules.go:1")) && bytes.Contains(stack, []byte("connection.handle"))
}

func (s *Sim) hookYield(site string) { s.park(site, false) }
func (s *Sim) hookYieldL(site string, label any) {
	if !s.passAll.Load() {
		if g := goid(); g != s.ctrl {
			s.mu.Lock()
			s.taskFor(g).Label = fmt.Sprint(label)
			s.mu.Unlock()
		}
	}
	s.park(site, false)
}

// clockSkewMs is what the server's wall clock (clock.RealClock) reads beyond the bubble's fake clock: StepClock
// moves it, nowMs (the harness's reading of the server clock) includes it. One simulation runs at a time.
var clockSkewMs atomic.Int64

// StepClock steps the server's wall clock by d (negative = backwards) without any time passing: timers and
// tickers, which measure durations, are not affected - as with a real clock correction.
func (s *Sim) StepClock(d time.Duration) {
	clockSkewMs.Add(d.Milliseconds())
	s.Stats.FaultsFired["clock-step"]++
}

func (s *Sim) hookSpin(site string) { s.park("spin:"+site, true) }

func (s *Sim) callerTask() *Task {
	g := goid()
	if g == s.ctrl {
		return nil
	}
	s.mu.Lock()
	defer s.mu.Unlock()
	return s.taskFor(g)
}

func (s *Sim) hookNote(ev string) {
	t := s.callerTask()
	inst := s.curInst
	if t != nil {
		inst = t.Inst
	}
	s.mu.Lock()
	switch ev {
	case "rewrite.locked":
		s.rewriting[inst] = true
	case "rewrite.unlocked":
		s.rewriting[inst] = false
	case "write.locked":
		s.writing[inst] = true
	case "write.unlocked":
		s.writing[inst] = false
	case "statecopy.begin":
		s.copyOpen[inst]++
		if s.mutOpen[inst] > 0 {
			s.Overlap = true
		}
	case "statecopy.end":
		s.copyOpen[inst]--
	}
	s.mu.Unlock()
	if s.OnNote != nil {
		s.OnNote(ev, t)
	}
}

func (s *Sim) hookFault(site string) error {
	t := s.callerTask()
	if t != nil && s.isDead(t.Inst) {
		runtime.Goexit()
	}
	if s.OnFault != nil {
		return s.OnFault(site, t)
	}
	return nil
}

func (s *Sim) hookFS(kind, path string, b []byte) {
	t := s.callerTask()
	if s.OnFS != nil {
		s.OnFS(kind, path, b, t)
	}
}

func (s *Sim) hookWrap(path string, f verifhook.File) verifhook.File {
	t := s.callerTask()
	if s.WrapFile != nil {
		return s.WrapFile(path, f, t)
	}
	// not observed by this profile: still remembered, so that the descriptor is closed when the run ends
	// (instances are killed, not shut down; thousands of runs per worker process would exhaust the descriptors)
	s.mu.Lock()
	s.rawFiles = append(s.rawFiles, f)
	s.mu.Unlock()
	return f
}

func (s *Sim) isDead(inst int) bool {
	s.mu.Lock()
	defer s.mu.Unlock()
	return s.deadInst[inst]
}

// Spawn starts a harness-owned task. It parks at site "start" before running fn.
func (s *Sim) Spawn(name string, inst int, fn func()) *Task {
	s.mu.Lock()
	s.nextID++
	t := &Task{ID: s.nextID, Name: name, Inst: inst, BirthStep: s.Step, Owned: true, wake: make(chan struct{}, 1), Site: "start:" + name, Parked: true}
	s.mu.Unlock()
	ready := make(chan struct{})
	go func() {
		g := goid()
		s.mu.Lock()
		t.Goid = g
		s.tasks[g] = t
		s.mu.Unlock()
		close(ready)
		defer func() {
			s.mu.Lock()
			t.Done = true
			t.Parked = false
			s.mu.Unlock()
		}()
		<-t.wake
		if t.kill {
			return
		}
		fn()
	}()
	<-ready
	return t
}

// Settle waits until every goroutine in the bubble is durably blocked.
func (s *Sim) Settle() {
	synctest.Wait()
	progress()
}

// ParkedTasks returns the eligible parked tasks in a stable order.
func (s *Sim) ParkedTasks() []*Task {
	s.mu.Lock()
	defer s.mu.Unlock()
	var res []*Task
	for _, t := range s.tasks {
		if !t.Parked || t.Done || s.deadInst[t.Inst] {
			continue
		}
		if t.Site == "lock.write" && s.writing[t.Inst] {
			continue // would block on the write-commit mutex held by a parked task
		}
		if t.waitLock != nil && len(s.holders(t.waitLock, t, t.waitWrite)) > 0 {
			continue // would block on an instrumented lock held by another task
		}
		res = append(res, t)
	}
	if len(res) == 0 {
		s.findDeadlock()
	}
	sort.Slice(res, func(i, j int) bool {
		if res[i].BirthStep != res[j].BirthStep {
			return res[i].BirthStep < res[j].BirthStep
		}
		if res[i].Owned != res[j].Owned {
			return res[i].Owned
		}
		if res[i].Owned {
			return res[i].ID < res[j].ID
		}
		if res[i].Site != res[j].Site {
			return res[i].Site < res[j].Site
		}
		if res[i].Label != res[j].Label {
			return res[i].Label < res[j].Label
		}
		return res[i].Goid < res[j].Goid
	})
	if len(res) > s.Stats.MaxParked {
		s.Stats.MaxParked = len(res)
	}
	return res
}

// Release lets t run until it parks again, finishes or blocks; then settles.
func (s *Sim) Release(t *Task) {
	s.mu.Lock()
	t.Parked = false
	s.current = t
	site := t.Site
	s.mu.Unlock()
	s.Step++
	s.Stats.Steps++
	s.Stats.Releases++
	s.Stats.SiteReleases[siteClass(site)]++
	if debugParked {
		s.mu.Lock()
		var ps []string
		for _, x := range s.tasks {
			if x.Parked && !x.Done {
				ps = append(ps, fmt.Sprintf("%s/%s/b%d/o%v", x.Site, x.Label, x.BirthStep, x.Owned))
			}
		}
		s.mu.Unlock()
		sort.Strings(ps)
		s.logf("   parked-before: %v", ps)
	}
	s.logf("run t%d %s", t.ID, site)
	s.foldEvent(fmt.Sprintf("r%d %s %s", t.BirthStep, site, t.Label))
	t.wake <- struct{}{}
	s.Settle()
	s.foldEvent(fmt.Sprintf("p%d", s.parkedCount()))
	s.mu.Lock()
	s.current = nil
	s.mu.Unlock()
}

func siteClass(site string) string {
	if i := strings.IndexByte(site, ':'); i > 0 && strings.HasPrefix(site, "start:") {
		return "start"
	}
	return site
}

// Advance moves the fake clock by d (timers in between fire; woken tasks park at their hooks).
func (s *Sim) Advance(d time.Duration) {
	s.Step++
	s.Stats.Steps++
	s.Stats.ClockAdv++
	s.Stats.SimTime += d
	s.logf("advance %v", d)
	s.foldEvent(fmt.Sprintf("a%d", d))
	time.Sleep(d)
	s.Settle()
}

// AdvanceSync moves the clock and lets every task woken by a timer run to completion (sequential profiles).
func (s *Sim) AdvanceSync(d time.Duration) {
	s.Advance(d)
	s.DrainAll(2000)
}

func (s *Sim) foldEvent(what string) {
	h := s.Stats.EvHash
	if h == 0 {
		h = 1469598103934665603
	}
	for i := 0; i < len(what); i++ {
		h ^= uint64(what[i])
		h *= 1099511628211
	}
	h ^= 0xfe
	h *= 1099511628211
	s.Stats.EvHash = h
}

func (s *Sim) parkedCount() int {
	s.mu.Lock()
	defer s.mu.Unlock()
	n := 0
	for _, t := range s.tasks {
		if t.Parked {
			n++
		}
	}
	return n
}

// PickFair applies the dice value k (0 <= k < len(parked)) under a weak fairness rule: a task that
// only re-tests a busy-wait flag (it has spun at least twice since it last made progress) is not
// chosen while a task that can make progress is parked - releasing it again cannot change the state.
// livelock is true when every parked task is such a spinner and the chosen one has spun more than limit times.
func PickFair(parked []*Task, k int, limit int) (t *Task, livelock bool) {
	t = parked[k]
	if !strings.HasPrefix(t.Site, "spin:") || t.Spins < 2 {
		return t, false
	}
	var movers []*Task
	for _, x := range parked {
		if !strings.HasPrefix(x.Site, "spin:") || x.Spins < 2 {
			movers = append(movers, x)
		}
	}
	if len(movers) > 0 {
		return movers[k%len(movers)], false
	}
	// only busy-waiting tasks are left: each of them may be what clears the flag another one waits for (a writer
	// that withdraws its announcement, a copier that finishes), so they take turns - the one that has re-tested
	// its flag least often goes next. A livelock is declared only when every one of them has spun more than
	// limit times.
	for _, x := range parked {
		if x.Spins < t.Spins {
			t = x
		}
	}
	return t, t.Spins > limit
}

// noteChoice folds a decision into the schedule hash.
func (s *Sim) noteChoice(n int, what string) {
	if n >= 2 {
		s.Stats.MultiChoice++
		for i := 0; i < len(what); i++ {
			s.schedHash ^= uint64(what[i])
			s.schedHash *= 1099511628211
		}
		s.schedHash ^= 0xff
		s.schedHash *= 1099511628211
	}
}

// Uncontrolled runs fn on the controller goroutine with all hooks passing through
// (dataset seeding, serial reference executions), then settles.
func (s *Sim) Uncontrolled(fn func()) {
	s.passAll.Store(true)
	fn()
	s.Settle()
	s.passAll.Store(false)
}

// KillInstance marks an instance dead: its parked tasks never run again; goroutines of it that reach a hook exit.
func (s *Sim) KillInstance(inst int) {
	s.mu.Lock()
	s.deadInst[inst] = true
	s.rewriting[inst] = false
	s.writing[inst] = false
	var owned []*Task
	for _, t := range s.tasks {
		if t.Inst == inst && t.Parked && !t.Done {
			t.kill = true
			t.Parked = false
			owned = append(owned, t)
		}
	}
	s.mu.Unlock()
	// wake them so that they exit (Goexit runs deferred unlocks; they hold none by construction)
	sort.Slice(owned, func(i, j int) bool { return owned[i].ID < owned[j].ID })
	for _, t := range owned {
		t.wake <- struct{}{}
	}
	s.Settle()
}

// DrainAll releases parked tasks FIFO (and optionally advances time) until nothing is runnable or the budget ends.
// Returns false if the budget was exhausted.
func (s *Sim) DrainAll(budget int) bool {
	idle := 0 // consecutive releases of tasks that only re-tested a busy-wait flag
	for i := 0; i < budget; i++ {
		p := s.ParkedTasks()
		if len(p) == 0 {
			return true
		}
		// prefer non-spinning tasks; among spinners the one that has waited least goes next (round robin):
		// each of them may be what clears the flag another one waits for
		var pick *Task
		for _, t := range p {
			if !strings.HasPrefix(t.Site, "spin:") {
				pick = t
				break
			}
		}
		if pick == nil {
			pick = p[0]
			for _, t := range p {
				if t.Spins < pick.Spins {
					pick = t
				}
			}
			idle++
			if idle > 400*len(p) {
				return false
			}
		} else {
			idle = 0
		}
		s.Release(pick)
	}
	return false
}

// ---- bubble ----------------------------------------------------------------

type bubbleResult struct {
	panicVal any
	stack    string
}

// RunBubble runs fn as the root goroutine of a fresh synctest bubble. The
// "blocked goroutines remain" panic that ends every bubble containing a SugarDB
// instance (its ticker goroutines never exit) is swallowed; anything else is returned.
func RunBubble(t *testing.T, fn func()) (res bubbleResult) {
	defer func() {
		if r := recover(); r != nil {
			if _, ok := r.(ctrlBlocked); ok {
				return
			}
			msg := fmt.Sprint(r)
			if strings.Contains(msg, "blocked goroutines remain") || strings.Contains(msg, "deadlock: main bubble goroutine has exited") {
				return
			}
			res.panicVal = r
			buf := make([]byte, 1<<16)
			res.stack = string(buf[:runtime.Stack(buf, false)])
		}
	}()
	synctest.Test(t, func(t *testing.T) {
		defer func() {
			// the controller abandoned the run (see hookLockYield); anything else propagates
			if r := recover(); r != nil {
				if _, ok := r.(ctrlBlocked); !ok {
					panic(r)
				}
			}
		}()
		fn()
	})
	return
}
