package dsim

// C18, "flood" profile (one plan in 1200): more messages are published to one channel than its queue holds
// (4096) while the channel's goroutine is not scheduled. The publisher then has to wait for room - whatever
// it does, once the channel runs again every message reaches the subscriber exactly once. The delivery
// goroutines are released in the order they were created, so the recorded findings about their mutual order
// (asynchronous delivery) stay out of this check; the oracle is about loss and duplication only.

import (
	"fmt"
	"testing"
)

func runC18Flood(t *testing.T, p *Plan) *Outcome {
	o := &Outcome{Trivial: true}
	fail := func(sig, detail string) {
		if o.Sig == "" {
			o.Sig, o.Detail = "C18/"+sig, detail
		}
	}
	n := int(p.K("n"))
	blocked := 0
	br := RunBubble(t, func() {
		s := NewSim()
		s.install()
		defer s.uninstall()
		inst, err := s.Boot(1, BaseConfig)
		if err != nil {
			fail("boot-failed", fmt.Sprint(err))
			return
		}
		s.sites = map[string]bool{"pubsub.dequeue": true, "pubsub.deliver": true}
		sub := s.NewTCPClient(inst, "s0")
		sub.conn.Write(EncodeCmd("SUBSCRIBE", "flood"))
		s.Settle()
		var buf []byte
		buf = append(buf, sub.conn.Take()...)
		pub := s.NewEmbeddedClient(inst, "p0")
		isChan := func(t *Task) bool { return t.Site == "pubsub.dequeue" || t.Site == "pubsub.deliver" }
		for i := 0; i < n && o.Sig == ""; i++ {
			done := false
			pub.Start([]string{"PUBLISH", "flood", fmt.Sprintf("m%d", i)}, func(r Result) { done = true })
			for k := 0; k < 400 && !done; k++ {
				parked := s.ParkedTasks()
				var pick *Task
				for _, tk := range parked {
					if !isChan(tk) {
						pick = tk
						break
					}
				}
				if pick == nil {
					s.Settle()
					if done {
						break
					}
					if len(parked) == 0 {
						break
					}
					// the publisher waits (queue full): the channel gets a step
					pick = parked[0]
					blocked++
				}
				s.Release(pick)
			}
			if !done {
				fail("flood/publish-never-returned", fmt.Sprintf("PUBLISH #%d of a burst of %d to one channel never returned", i, n))
				return
			}
		}
		for k := 0; k < 40*n; k++ {
			parked := s.ParkedTasks()
			if len(parked) == 0 {
				s.Settle()
				if len(s.ParkedTasks()) == 0 {
					break
				}
				continue
			}
			s.Release(parked[0])
		}
		buf = append(buf, sub.conn.Take()...)
		frames, _, perr := ParseAll(buf)
		if perr != nil {
			fail("malformed-frame", fmt.Sprintf("the subscriber received bytes that are not RESP: %v", perr))
			return
		}
		seen := map[string]int{}
		got := 0
		for _, f := range frames {
			if len(f.Elems) == 3 && f.Elems[0].Str == "message" {
				seen[f.Elems[2].Str]++
				got++
			}
		}
		lost, dup := 0, 0
		first := ""
		for i := 0; i < n; i++ {
			m := fmt.Sprintf("m%d", i)
			switch c := seen[m]; {
			case c == 0:
				lost++
				if first == "" {
					first = m
				}
			case c > 1:
				dup++
			}
		}
		o.Stats = s.Stats
		o.Stats.Probes["flood-publisher-waited"] = blocked
		if lost > 0 {
			fail("flood/lost", fmt.Sprintf("%d messages were published to one channel while its goroutine did not run (the publisher had to wait %d times); after the channel had run to the end the subscriber had received %d of them: %d lost (first %s), %d duplicated", n, blocked, got, lost, first, dup))
		} else if dup > 0 || got != n {
			fail("flood/duplicated", fmt.Sprintf("burst of %d messages: the subscriber received %d frames, %d messages more than once", n, got, dup))
		}
	})
	if br.panicVal != nil && o.Sig == "" {
		o.Sig = "C18/panic/" + topRepoFrame(br.stack)
		o.Detail = fmt.Sprintf("%v\n%s", br.panicVal, br.stack)
	}
	o.Trivial = false
	o.Class = fmt.Sprintf("flood:%d", n)
	o.Sample = map[string]any{"messages": n, "publisher_waited": blocked}
	return o
}
