package dsim

// C04 — expiry: keys live exactly until their deadline, then are unobservable.
//
// A small executable model (existence, kind, string value, deadline) written from the property
// statement and the expiry documentation. The fake clock is advanced by first-class plan
// operations biased to deadline-1ms / deadline / deadline+1ms; with an eviction policy other
// than noeviction the background sampler runs between commands.

import (
	"fmt"
	"sort"
	"strconv"
	"strings"
	"testing"
	"time"
)

func init() {
	register(&PropDef{
		ID: "C04",
		Rule: "plan = key creations of all five kinds + every way to set/clear a deadline (EXPIRE/PEXPIRE/EXPIREAT/PEXPIREAT x none|NX|XX|GT|LT, PERSIST, SET EX|PX|EXAT|PXAT, GETEX forms) + observers (GET, MGET, TYPE, TTL family, STRLEN, LLEN, HGET, SCARD, ZCARD, SET NX/XX, APPEND, INCR, LPUSHX, RENAME, DEL, HSET, SADD) + clock advances biased to deadline boundaries + sampler on/off (policy, interval, sample size drawn per run); profile race (1 in 4): the sampler's tick, per-database goroutines and store-lock acquisitions are interleaved with the steps of the commands by the dice (its activity must stay invisible: same model); " +
			"non-trivial = at least one deadline was crossed or queried; distinct = hash of the (operation kind, key kind, before/at/after-deadline class) sequence",
		Gen:  genC04,
		Run:  runC04,
		Real: []string{"keyspace (keysExist/getValues/setValues/setExpiry/deleteKey)", "expiry sampler goroutine and its ticker", "generic/string/list/hash/set/zset handlers used as observers", "clock.Clock via fake time"},
		Stub: []string{"wall clock (synctest fake clock advanced by the plan)", "TCP sockets"},
		Assumptions: []string{
			"a key is expired when the server clock is strictly after its deadline (the instant of the deadline itself is not constrained)",
			"TTL in seconds may round either way (|reply - exact| <= 1); PTTL, EXPIRETIME, PEXPIRETIME are exact",
			"GT/LT on a key without a deadline and a plain SET over a volatile key are not constrained by the documentation: the model adopts the implementation's choice and checks it stays consistent",
		},
	})
}

var c04Kinds = []string{"string", "list", "hash", "set", "zset"}

func genC04(r *Rng, tier string, idx int) *Plan {
	p := &Plan{Knobs: map[string]int64{}, SKnobs: map[string]string{}}
	p.Profile = "lazy"
	p.SKnobs["policy"] = "noeviction"
	if idx%2 == 1 {
		p.Profile = "sampler"
		p.SKnobs["policy"] = Pick(r, []string{"allkeys-lru", "allkeys-lfu", "volatile-lru", "volatile-lfu", "allkeys-random", "volatile-random"})
		p.Knobs["interval_ms"] = int64(Pick(r, []int{10, 100, 1000}))
		p.Knobs["sample"] = int64(Pick(r, []int{1, 2, 5, 20}))
		if idx%4 == 3 {
			// the sampler's steps (tick, per-database goroutines, store-lock acquisitions) are interleaved with the
			// steps of the next commands by the dice instead of running to completion between commands
			p.Profile = "race"
			p.Dice = drawDice(r, 128)
		}
	}
	p.Knobs["tcp"] = int64(r.Intn(2))
	keys := []string{"k1", "k2", "k3"}
	n := r.Range(6, 25)
	if tier == "thorough" {
		n = r.Range(6, 60)
	}
	for i := 0; i < n; i++ {
		k := Pick(r, keys)
		switch x := r.Intn(100); {
		case x < 4:
			// one multi-key write over all keys: live volatile ones, expired ones and absent ones together
			p.Ops = append(p.Ops, Op{Kind: "mset", Args: []string{k}})
		case x < 18:
			p.Ops = append(p.Ops, Op{Kind: "create", S: Pick(r, c04Kinds), Args: []string{k}, N: int64(r.Intn(6))})
		case x < 40:
			p.Ops = append(p.Ops, Op{Kind: "expire", Args: []string{k}, N: int64(r.Intn(1 << 20)), S: Pick(r, []string{"", "", "NX", "XX", "GT", "LT"})})
		case x < 46:
			p.Ops = append(p.Ops, Op{Kind: "persist", Args: []string{k}, N: int64(r.Intn(3))})
		case x < 66:
			p.Ops = append(p.Ops, Op{Kind: "observe", Args: []string{k, Pick(r, keys)}, N: int64(r.Intn(64))})
		case x < 78:
			p.Ops = append(p.Ops, Op{Kind: "modify", Args: []string{k, Pick(r, keys)}, N: int64(r.Intn(64))})
		default:
			p.Ops = append(p.Ops, Op{Kind: "advance", Args: []string{k}, N: int64(r.Intn(1 << 20)), S: Pick(r, []string{"before", "at", "after", "after", "rand"})})
		}
	}
	return p
}

type c04Key struct {
	exists   bool
	kind     string
	str      string
	deadline int64 // 0 = none
	// an unconstrained point left two admissible deadlines (adopted at the next observation)
	altDeadline int64
	hasAlt      bool
}

type c04Run struct {
	p     *Plan
	o     *Outcome
	s     *Sim
	inst  *Instance
	c     *Client
	m     map[string]*c04Key
	class []string
	now   func() int64
	cross int
	dice  *Dice
}

func (a *c04Run) fail(sig, detail string) {
	if a.o.Sig == "" {
		a.o.Sig, a.o.Detail = "C04/"+sig, detail
	}
}

// live: the model's view of key k at the current instant (expired keys become absent).
func (a *c04Run) live(k string) *c04Key {
	e := a.m[k]
	if e == nil {
		e = &c04Key{}
		a.m[k] = e
	}
	if e.exists && e.deadline != 0 && a.now() > e.deadline && !e.hasAlt {
		*e = c04Key{}
	}
	if e.exists && e.hasAlt {
		// both candidates expired -> absent; otherwise still ambiguous
		d1, d2 := e.deadline, e.altDeadline
		exp1 := d1 != 0 && a.now() > d1
		exp2 := d2 != 0 && a.now() > d2
		if exp1 && exp2 {
			*e = c04Key{}
		}
	}
	return e
}

func runC04(t *testing.T, p *Plan) *Outcome {
	o := &Outcome{Trivial: true}
	a := &c04Run{p: p, o: o, m: map[string]*c04Key{}}
	br := RunBubble(t, func() {
		s := NewSim()
		s.logOn = true
		a.s = s
		s.install()
		defer s.uninstall()
		cfg := BaseConfig
		cfg.EvictionPolicy = p.SK("policy")
		if p.Profile == "sampler" || p.Profile == "race" {
			cfg.EvictionInterval = time.Duration(p.K("interval_ms")) * time.Millisecond
			cfg.EvictionSample = uint(p.K("sample"))
		}
		inst, err := s.Boot(1, cfg)
		if err != nil {
			a.fail("boot-failed", fmt.Sprint(err))
			return
		}
		a.inst = inst
		if p.K("tcp") == 1 {
			a.c = s.NewTCPClient(inst, "c")
		} else {
			a.c = s.NewEmbeddedClient(inst, "c")
		}
		a.now = func() int64 { return time.Now().UnixMilli() }
		a.dice = p.NewDice()
		for i := 0; i < len(p.Ops) && o.Sig == ""; i++ {
			a.step(p.Ops[i])
			if o.Sig == "" {
				a.checkDump(p.Ops[i])
			}
		}
		if p.Profile == "race" && o.Sig == "" && !s.DrainAll(3000) {
			a.fail("sampler-never-quiesces", "the expiry sampler's goroutines do not finish after the workload ended")
		}
		o.Stats = s.Stats
		o.Log = s.Log
	})
	if br.panicVal != nil && o.Sig == "" {
		o.Sig = "C04/panic/" + topRepoFrame(br.stack)
		o.Detail = fmt.Sprintf("%v\n%s", br.panicVal, br.stack)
	}
	o.Class = p.Profile + "|" + strings.Join(a.class, ",")
	o.Trivial = a.cross == 0
	o.Sample = map[string]any{"deadline_events": a.cross, "classes": a.class}
	return o
}

// doRace runs one command as a task and lets the dice interleave its steps with whatever the sampler has
// pending (a tick woken by the last clock advance, its per-database goroutines).
func (a *c04Run) doRace(args []string) Result {
	s := a.s
	var res *Result
	a.c.Start(args, func(r Result) { res = &r })
	for step := 0; step < 3000; step++ {
		parked := s.ParkedTasks()
		if len(parked) == 0 {
			if res != nil {
				break
			}
			s.Settle()
			if len(s.ParkedTasks()) == 0 && step > 20 {
				break
			}
			continue
		}
		if res != nil {
			break // the command is answered; what is left of the sampler races with the next command
		}
		tk, stuck := PickFair(parked, a.dice.Next(len(parked)), 300)
		s.noteChoice(len(parked), tk.Site)
		if stuck {
			a.fail("livelock/"+tk.Site, fmt.Sprintf("%q racing the sampler: task t%d spun %d times at %s", args, tk.ID, tk.Spins, tk.Site))
			return Result{}
		}
		s.Release(tk)
	}
	if res == nil {
		a.fail("never-answered/"+strings.ToUpper(args[0]), fmt.Sprintf("%q racing the expiry sampler was never answered", args))
		return Result{}
	}
	return *res
}

func (a *c04Run) do(args ...string) Result {
	if a.p.Profile == "race" {
		r := a.doRace(args)
		if r.Panic != "" {
			a.fail("panic/"+strings.ToUpper(args[0])+"/"+topRepoFrame(r.Panic), fmt.Sprintf("%q: %s", args, r.Panic))
		}
		return r
	}
	r := a.c.DoSync(args...)
	if r.Panic != "" {
		a.fail("panic/"+strings.ToUpper(args[0])+"/"+topRepoFrame(r.Panic), fmt.Sprintf("%q: %s", args, r.Panic))
	}
	return r
}

// phase names where the clock stands relative to the key's deadline.
func (a *c04Run) phase(e *c04Key) string {
	switch {
	case !e.exists:
		return "absent"
	case e.deadline == 0:
		return "persistent"
	case a.now() < e.deadline:
		return "before"
	case a.now() == e.deadline:
		return "at"
	}
	return "after"
}

func intReply(r Result) (int64, bool) {
	if r.IsError() || r.ParseErr != "" || r.NoReply {
		return 0, false
	}
	if r.Reply.Kind == RInt {
		return r.Reply.Int, true
	}
	v, err := strconv.ParseInt(r.Reply.Str, 10, 64)
	return v, err == nil
}

func (a *c04Run) step(op Op) {
	k := op.Args[0]
	raw := a.m[k]
	rawPhase := "absent"
	if raw != nil {
		rawPhase = a.phase(raw)
	}
	e := a.live(k)
	if rawPhase == "after" {
		a.cross++
	}
	switch op.Kind {
	case "advance":
		var d int64
		base := raw
		if base == nil || !base.exists || base.deadline == 0 {
			d = op.N%5000 + 1
		} else {
			rem := base.deadline - a.now()
			switch op.S {
			case "before":
				d = rem - 1
			case "at":
				d = rem
			case "after":
				d = rem + 1 + op.N%3
			default:
				d = op.N%(2*abs64(rem)+10) + 1
			}
			if d <= 0 {
				d = op.N%1000 + 1
			}
		}
		a.class = append(a.class, "adv:"+op.S)
		if a.p.Profile == "race" {
			// the tick this wakes is left parked: it runs interleaved with the next commands
			a.s.Advance(time.Duration(d) * time.Millisecond)
			a.s.Settle()
			break
		}
		a.s.AdvanceSync(time.Duration(d) * time.Millisecond)
		if a.p.Profile == "sampler" {
			// let the sampler tick a few times
			for i := 0; i < 2; i++ {
				a.s.AdvanceSync(time.Duration(a.p.K("interval_ms")) * time.Millisecond)
			}
		}
	case "mset":
		a.class = append(a.class, "mset/"+rawPhase)
		a.mset()
	case "create":
		a.class = append(a.class, "create:"+op.S+"/"+rawPhase)
		a.create(k, op.S, int(op.N), e)
	case "expire":
		a.expire(k, op, e, rawPhase)
	case "persist":
		a.class = append(a.class, "persist/"+rawPhase)
		if op.N == 0 && e.exists && e.kind == "string" {
			r := a.do("GETEX", k, "PERSIST")
			a.expectStr(r, e, "GETEX PERSIST", k, rawPhase)
			if a.o.Sig == "" && !r.IsError() {
				e.deadline, e.hasAlt = 0, false
			}
			return
		}
		r := a.do("PERSIST", k)
		want := int64(0)
		if e.exists && (e.deadline != 0 || e.hasAlt) {
			want = 1
		}
		if got, ok := intReply(r); !ok || (got != want && !e.hasAlt) {
			a.fail("option:PERSIST", fmt.Sprintf("PERSIST %s on a key that is %s: reply %s, expected %d", k, rawPhase, r, want))
			return
		}
		if e.exists {
			e.deadline, e.hasAlt = 0, false
		}
	case "observe":
		a.observe(k, op, e, rawPhase)
	case "modify":
		a.modify(k, op, e, rawPhase)
	}
}

func abs64(x int64) int64 {
	if x < 0 {
		return -x
	}
	return x
}

func (e *c04Key) kindOr() string {
	if !e.exists {
		return "none"
	}
	return e.kind
}

// resolveAlt settles an unconstrained point right away: the implementation may have kept the old
// deadline or dropped it; whichever it did is adopted (anything else is a violation).
func (a *c04Run) resolveAlt(k string, e *c04Key) {
	if !e.hasAlt {
		return
	}
	r := a.do("PEXPIRETIME", k)
	got, ok := intReply(r)
	switch {
	case ok && got == -1:
		e.deadline, e.hasAlt = 0, false
	case ok && got == e.deadline:
		e.hasAlt = false
	case ok && got == -2 && e.deadline != 0 && a.now() > e.deadline:
		*e = c04Key{} // it kept a deadline that has passed already
	default:
		a.fail("inherited-deadline/after-overwrite", fmt.Sprintf("after overwriting volatile key %s (old deadline %d) PEXPIRETIME = %s: neither kept nor dropped", k, e.deadline, r))
	}
}

func (a *c04Run) create(k, kind string, variant int, e *c04Key) {
	var r Result
	val := "v" + strconv.Itoa(variant)
	switch kind {
	case "string":
		// half of the string creations carry a deadline option
		now := a.now()
		switch variant {
		case 0:
			r = a.do("SET", k, val)
			if !r.IsError() {
				if e.exists && e.deadline != 0 {
					// a plain SET over a volatile key: the documentation does not say whether the deadline is kept
					*e = c04Key{exists: true, kind: "string", str: val, deadline: e.deadline, altDeadline: 0, hasAlt: true}
				} else {
					*e = c04Key{exists: true, kind: "string", str: val}
				}
			}
		case 1:
			r = a.do("SET", k, val, "EX", "5")
			if !r.IsError() {
				*e = c04Key{exists: true, kind: "string", str: val, deadline: now + 5000}
			}
		case 2:
			r = a.do("SET", k, val, "PX", "1500")
			if !r.IsError() {
				*e = c04Key{exists: true, kind: "string", str: val, deadline: now + 1500}
			}
		case 3:
			r = a.do("SET", k, val, "EXAT", strconv.FormatInt(now/1000+3, 10))
			if !r.IsError() {
				*e = c04Key{exists: true, kind: "string", str: val, deadline: (now/1000 + 3) * 1000}
			}
		case 4:
			r = a.do("SET", k, val, "PXAT", strconv.FormatInt(now+777, 10))
			if !r.IsError() {
				*e = c04Key{exists: true, kind: "string", str: val, deadline: now + 777}
			}
		default:
			r = a.do("SET", k, "12")
			if !r.IsError() {
				if e.exists && e.deadline != 0 {
					*e = c04Key{exists: true, kind: "string", str: "12", deadline: e.deadline, hasAlt: true}
				} else {
					*e = c04Key{exists: true, kind: "string", str: "12"}
				}
			}
		}
		if r.IsError() {
			a.fail("create-failed/string", fmt.Sprintf("SET %s failed: %s", k, r))
		}
		a.resolveAlt(k, e)
		return
	case "list":
		if e.exists && e.kind != "list" {
			a.do("DEL", k)
			*e = c04Key{}
		}
		r = a.do("RPUSH", k, val)
	case "hash":
		if e.exists && e.kind != "hash" {
			a.do("DEL", k)
			*e = c04Key{}
		}
		r = a.do("HSET", k, "f", val)
	case "set":
		if e.exists && e.kind != "set" {
			a.do("DEL", k)
			*e = c04Key{}
		}
		r = a.do("SADD", k, val)
	case "zset":
		if e.exists && e.kind != "zset" {
			a.do("DEL", k)
			*e = c04Key{}
		}
		r = a.do("ZADD", k, "1", val)
	}
	if r.IsError() {
		a.fail("create-failed/"+kind, fmt.Sprintf("creating a %s at %s (model: key absent or of that kind) failed: %s", kind, k, r))
		return
	}
	if !e.exists {
		*e = c04Key{exists: true, kind: kind}
	}
}

func (a *c04Run) expire(k string, op Op, e *c04Key, rawPhase string) {
	now := a.now()
	var cmd []string
	var target int64
	switch op.N % 4 {
	case 0:
		secs := op.N/4%20 + 1
		cmd = []string{"EXPIRE", k, strconv.FormatInt(secs, 10)}
		target = now + secs*1000
	case 1:
		ms := op.N/4%20000 + 1
		cmd = []string{"PEXPIRE", k, strconv.FormatInt(ms, 10)}
		target = now + ms
	case 2:
		at := now/1000 + op.N/4%20 + 1
		cmd = []string{"EXPIREAT", k, strconv.FormatInt(at, 10)}
		target = at * 1000
	case 3:
		at := now + op.N/4%20000 + 1
		cmd = []string{"PEXPIREAT", k, strconv.FormatInt(at, 10)}
		target = at
	}
	if op.S != "" {
		cmd = append(cmd, op.S)
	}
	a.class = append(a.class, cmd[0]+":"+op.S+"/"+e.kindOr()+"/"+rawPhase)
	r := a.do(cmd...)
	got, ok := intReply(r)
	if !ok {
		a.fail("option:"+op.S+"/reply", fmt.Sprintf("%q: reply %s", cmd, r))
		return
	}
	if !e.exists {
		if got != 0 {
			a.fail("stale-visible/"+cmd[0], fmt.Sprintf("%q on a key that is %s returned %d (the key must be treated as missing)", cmd, rawPhase, got))
		}
		return
	}
	if e.hasAlt {
		// ambiguous current deadline: adopt whatever the implementation did
		if got == 1 {
			e.deadline, e.hasAlt = target, false
		}
		return
	}
	cur := e.deadline
	want := int64(1)
	unconstrained := false
	switch op.S {
	case "NX":
		if cur != 0 {
			want = 0
		}
	case "XX":
		if cur == 0 {
			want = 0
		}
	case "GT":
		if cur == 0 {
			unconstrained = true
		} else if target <= cur {
			want = 0
			if target == cur {
				unconstrained = true
			}
		}
	case "LT":
		if cur == 0 {
			unconstrained = true
		} else if target >= cur {
			want = 0
			if target == cur {
				unconstrained = true
			}
		}
	}
	if unconstrained {
		if got == 1 {
			e.deadline = target
		}
		return
	}
	if got != want {
		a.fail("option:"+orNone(op.S)+"/"+cmd[0], fmt.Sprintf("%q with current deadline %d, new %d (now %d): reply %d, expected %d", cmd, cur, target, now, got, want))
		return
	}
	if want == 1 {
		e.deadline = target
	}
}

func orNone(s string) string {
	if s == "" {
		return "none"
	}
	return s
}

func (a *c04Run) expectStr(r Result, e *c04Key, what, k, rawPhase string) {
	if !e.exists {
		if !r.IsNilReply() {
			a.fail("stale-visible/"+what, fmt.Sprintf("%s %s on a key that is %s returned %s, expected nil", what, k, rawPhase, r))
		}
		return
	}
	if r.IsError() || r.Reply.Text() != e.str {
		a.fail("wrong-value/"+what, fmt.Sprintf("%s %s returned %s, expected %q", what, k, r, e.str))
	}
}

// IsNilReply: a nil bulk/array/null, as opposed to an error or a value.
func (r Result) IsNilReply() bool {
	return r.Err == "" && r.ParseErr == "" && !r.NoReply && r.Reply.IsNil()
}

func (a *c04Run) observe(k string, op Op, e *c04Key, rawPhase string) {
	now := a.now()
	kind := e.kindOr()
	type obs struct {
		name string
		run  func()
	}
	absentInt := func(name string, cmd []string, missing int64) func() {
		return func() {
			r := a.do(cmd...)
			got, ok := intReply(r)
			if !e.exists {
				if !ok || got != missing {
					a.fail("stale-visible/"+name, fmt.Sprintf("%q on a key that is %s returned %s, expected %d", cmd, rawPhase, r, missing))
				}
				return
			}
			if !ok {
				a.fail("wrong-reply/"+name, fmt.Sprintf("%q on an existing %s returned %s", cmd, kind, r))
			}
		}
	}
	ttl := func(name string) func() {
		return func() {
			r := a.do(name, k)
			got, ok := intReply(r)
			if !ok {
				a.fail("wrong-ttl/"+name+"/reply", fmt.Sprintf("%s %s: %s", name, k, r))
				return
			}
			if !e.exists {
				if got != -2 {
					a.fail("stale-visible/"+name, fmt.Sprintf("%s %s on a key that is %s returned %d, expected -2", name, k, rawPhase, got))
				}
				return
			}
			check := func(dl int64) bool {
				if dl == 0 {
					return got == -1
				}
				switch name {
				case "PTTL":
					return got == dl-now
				case "TTL":
					exact := (dl - now) / 1000
					return got >= exact-1 && got <= exact+1
				case "EXPIRETIME":
					return got == dl/1000
				case "PEXPIRETIME":
					return got == dl
				}
				return false
			}
			if e.hasAlt {
				switch {
				case check(e.deadline):
					e.hasAlt = false
				case check(e.altDeadline):
					e.deadline, e.hasAlt = e.altDeadline, false
				default:
					a.fail("wrong-ttl/"+name, fmt.Sprintf("%s %s = %d, admissible deadlines %d or %d (now %d)", name, k, got, e.deadline, e.altDeadline, now))
				}
				return
			}
			if !check(e.deadline) {
				a.fail("wrong-ttl/"+name, fmt.Sprintf("%s %s = %d but the deadline last set is %d (now %d)", name, k, got, e.deadline, now))
			}
		}
	}
	all := []obs{
		{"TTL", ttl("TTL")}, {"PTTL", ttl("PTTL")}, {"EXPIRETIME", ttl("EXPIRETIME")}, {"PEXPIRETIME", ttl("PEXPIRETIME")},
		{"TYPE", func() {
			r := a.do("TYPE", k)
			if !e.exists {
				if !(r.IsError() || r.IsNilReply() || strings.EqualFold(r.Reply.Text(), "none")) {
					a.fail("stale-visible/TYPE", fmt.Sprintf("TYPE %s on a key that is %s returned %s", k, rawPhase, r))
				}
				return
			}
			if r.IsError() {
				a.fail("wrong-reply/TYPE", fmt.Sprintf("TYPE %s on an existing %s returned %s", k, kind, r))
			}
		}},
		{"MGET", func() {
			r := a.do("MGET", k)
			if r.IsError() || len(r.Reply.Elems) != 1 {
				a.fail("wrong-reply/MGET", fmt.Sprintf("MGET %s: %s", k, r))
				return
			}
			el := r.Reply.Elems[0]
			if !e.exists && !el.IsNil() {
				a.fail("stale-visible/MGET", fmt.Sprintf("MGET %s on a key that is %s returned %s", k, rawPhase, r))
			}
			if e.exists && e.kind == "string" && el.Text() != e.str {
				a.fail("wrong-value/MGET", fmt.Sprintf("MGET %s returned %s, expected %q", k, r, e.str))
			}
		}},
	}
	switch kind {
	case "none", "string":
		all = append(all,
			obs{"GET", func() { a.expectStr(a.do("GET", k), e, "GET", k, rawPhase) }},
			obs{"STRLEN", func() {
				if e.exists && (e.str == "12" || e.str == "13" || e.str == "1") {
					return // numeric-looking strings are stored as numbers and STRLEN rejects them: C01's finding, not expiry
				}
				absentInt("STRLEN", []string{"STRLEN", k}, 0)()
			}},
		)
	}
	switch kind {
	case "none", "list":
		all = append(all, obs{"LLEN", absentInt("LLEN", []string{"LLEN", k}, 0)})
	}
	switch kind {
	case "none", "hash":
		all = append(all, obs{"HGET", func() {
			r := a.do("HGET", k, "f")
			if !e.exists && !(r.IsNilReply() || (!r.IsError() && len(r.Reply.Elems) == 1 && r.Reply.Elems[0].IsNil())) {
				a.fail("stale-visible/HGET", fmt.Sprintf("HGET %s f on a key that is %s returned %s", k, rawPhase, r))
			}
		}})
	}
	switch kind {
	case "none", "set":
		all = append(all, obs{"SCARD", absentInt("SCARD", []string{"SCARD", k}, 0)})
	}
	switch kind {
	case "none", "zset":
		all = append(all, obs{"ZCARD", absentInt("ZCARD", []string{"ZCARD", k}, 0)})
	}
	o := all[int(op.N)%len(all)]
	a.class = append(a.class, o.name+"/"+kind+"/"+rawPhase)
	o.run()
}

func (a *c04Run) modify(k string, op Op, e *c04Key, rawPhase string) {
	k2 := op.Args[1]
	kind := e.kindOr()
	type mod struct {
		name string
		ok   bool
		run  func()
	}
	mods := []mod{
		{"SETNX", true, func() {
			r := a.do("SET", k, "nx", "NX")
			if !e.exists {
				if r.IsError() || r.IsNilReply() {
					a.fail("stale-visible/SETNX", fmt.Sprintf("SET %s nx NX on a key that is %s was refused: %s", k, rawPhase, r))
					return
				}
				*e = c04Key{exists: true, kind: "string", str: "nx"}
				return
			}
			if !(r.IsError() || r.IsNilReply()) {
				a.fail("wrong-reply/SETNX", fmt.Sprintf("SET %s nx NX on an existing key succeeded: %s", k, r))
			}
		}},
		{"SETXX", true, func() {
			r := a.do("SET", k, "xx", "XX")
			if !e.exists {
				if !(r.IsError() || r.IsNilReply()) {
					a.fail("stale-visible/SETXX", fmt.Sprintf("SET %s xx XX on a key that is %s succeeded: %s", k, rawPhase, r))
				}
				return
			}
			if r.IsError() || r.IsNilReply() {
				a.fail("wrong-reply/SETXX", fmt.Sprintf("SET %s xx XX on an existing key was refused: %s", k, r))
				return
			}
			if e.deadline != 0 || e.hasAlt {
				*e = c04Key{exists: true, kind: "string", str: "xx", deadline: e.deadline, altDeadline: 0, hasAlt: true}
				a.resolveAlt(k, e)
			} else {
				*e = c04Key{exists: true, kind: "string", str: "xx"}
			}
		}},
		{"DEL", true, func() {
			r := a.do("DEL", k)
			got, ok := intReply(r)
			want := int64(0)
			if e.exists {
				want = 1
			}
			if !ok || got != want {
				a.fail(ifs(e.exists, "wrong-reply/DEL", "stale-visible/DEL"), fmt.Sprintf("DEL %s on a key that is %s returned %s, expected %d", k, rawPhase, r, want))
				return
			}
			*e = c04Key{}
		}},
		{"APPEND", kind == "none" || (kind == "string" && e.str != "12" && e.str != "13"), func() {
			r := a.do("APPEND", k, "zz")
			got, ok := intReply(r)
			want := int64(2)
			if e.exists {
				want = int64(len(e.str) + 2)
			}
			if !ok || got != want {
				a.fail(ifs(e.exists, "wrong-reply/APPEND", "stale-visible/APPEND"), fmt.Sprintf("APPEND %s zz on a key that is %s returned %s, expected %d", k, rawPhase, r, want))
				return
			}
			if e.exists {
				e.str += "zz"
			} else {
				*e = c04Key{exists: true, kind: "string", str: "zz"}
			}
		}},
		{"INCR", kind == "none" || (kind == "string" && e.str == "12"), func() {
			r := a.do("INCR", k)
			got, ok := intReply(r)
			want := int64(1)
			if e.exists {
				want = 13
			}
			if !ok || got != want {
				a.fail(ifs(e.exists, "wrong-reply/INCR", "stale-visible/INCR"), fmt.Sprintf("INCR %s on a key that is %s returned %s, expected %d", k, rawPhase, r, want))
				return
			}
			if e.exists {
				e.str = "13"
			} else {
				*e = c04Key{exists: true, kind: "string", str: "1"}
			}
		}},
		{"LPUSHX", kind == "none" || kind == "list", func() {
			r := a.do("LPUSHX", k, "x")
			got, ok := intReply(r)
			if !e.exists {
				// LPUSHX on a missing key does nothing: 0 or an error are both a refusal
				if !(r.IsError() || (ok && got == 0)) {
					a.fail("stale-visible/LPUSHX", fmt.Sprintf("LPUSHX %s x on a key that is %s returned %s", k, rawPhase, r))
				}
				return
			}
			if r.IsError() {
				a.fail("wrong-reply/LPUSHX", fmt.Sprintf("LPUSHX %s x on an existing list returned %s", k, r))
			}
		}},
		{"HSET", kind == "none" || kind == "hash", func() {
			r := a.do("HSET", k, "g", "1")
			if r.IsError() {
				a.fail("wrong-reply/HSET", fmt.Sprintf("HSET %s g 1 on a key that is %s failed: %s", k, rawPhase, r))
				return
			}
			if !e.exists {
				*e = c04Key{exists: true, kind: "hash"}
			}
		}},
		{"SADD", kind == "none" || kind == "set", func() {
			r := a.do("SADD", k, "m")
			if r.IsError() {
				a.fail("wrong-reply/SADD", fmt.Sprintf("SADD %s m on a key that is %s failed: %s", k, rawPhase, r))
				return
			}
			if !e.exists {
				*e = c04Key{exists: true, kind: "set"}
			}
		}},
		{"RENAME", k != k2, func() {
			e2 := a.live(k2)
			r := a.do("RENAME", k, k2)
			if !e.exists {
				if !r.IsError() {
					a.fail("stale-visible/RENAME", fmt.Sprintf("RENAME %s %s with a source that is %s succeeded: %s", k, k2, rawPhase, r))
				}
				return
			}
			if r.IsError() {
				a.fail("wrong-reply/RENAME", fmt.Sprintf("RENAME %s %s failed: %s", k, k2, r))
				return
			}
			// whether the deadline travels with the value (or the destination's old one stays) is not part of
			// this property (RENAME is C01's): adopt what the implementation did
			*e2 = *e
			*e = c04Key{}
			pr := a.do("PEXPIRETIME", k2)
			if got, ok := intReply(pr); ok && got >= 0 {
				e2.deadline = got
			} else if ok && got == -1 {
				e2.deadline = 0
			} else {
				a.fail("wrong-reply/RENAME-probe", fmt.Sprintf("after RENAME %s %s PEXPIRETIME = %s", k, k2, pr))
			}
		}},
	}
	var avail []mod
	for _, m := range mods {
		if m.ok {
			avail = append(avail, m)
		}
	}
	m := avail[int(op.N)%len(avail)]
	a.class = append(a.class, m.name+"/"+kind+"/"+rawPhase)
	m.run()
}

func ifs(c bool, a, b string) string {
	if c {
		return a
	}
	return b
}

// checkDump compares the white-box dump with the model after every step: a key the model
// holds alive must be there with its deadline; a key the model does not hold must not be there,
// except an expired one that nothing has collected yet.
func (a *c04Run) checkDump(op Op) {
	st := a.inst.DB.VerifDump()
	db := st.DBs[0]
	now := a.now()
	keys := map[string]bool{}
	for k := range db {
		keys[k] = true
	}
	for k := range a.m {
		keys[k] = true
	}
	ks := make([]string, 0, len(keys))
	for k := range keys {
		ks = append(ks, k)
	}
	sort.Strings(ks)
	for _, k := range ks {
		raw := a.m[k]
		var e c04Key
		if raw != nil {
			e = *raw
		}
		got, has := db[k]
		alive := e.exists && (e.hasAlt || e.deadline == 0 || now <= e.deadline)
		switch {
		case alive && !has:
			a.fail("early-removed/"+e.kind+"/"+a.p.Profile, fmt.Sprintf("after %s: key %s (%s, deadline %d, now %d) disappeared although its deadline has not passed", op, k, e.kind, e.deadline, now))
		case alive && has:
			if !e.hasAlt && got.ExpireAt != e.deadline {
				a.fail("inherited-deadline/"+e.kind, fmt.Sprintf("after %s: key %s carries deadline %d in the store, the deadline last set is %d (now %d)", op, k, got.ExpireAt, e.deadline, now))
			}
		case !alive && has:
			// tolerated only as a not-yet-collected expired entry
			if got.ExpireAt == 0 || got.ExpireAt >= now {
				a.fail("ghost-key/"+got.Kind, fmt.Sprintf("after %s: the store holds %s (kind %s, deadline %d) which the model says does not exist (now %d)", op, k, got.Kind, got.ExpireAt, now))
			}
		}
		if a.o.Sig != "" {
			return
		}
	}
}

// mset writes all keys of the universe with one MSET. A key that was absent (or expired) must come out without a
// deadline; a live volatile key keeps or drops its deadline (not defined by the documentation) - but its own, never
// another key's.
func (a *c04Run) mset() {
	keys := []string{"k1", "k2", "k3"}
	args := []string{"MSET"}
	for _, k := range keys {
		args = append(args, k, "m-"+k)
		a.live(k) // expired keys become absent in the model
	}
	r := a.do(args...)
	if r.IsError() {
		a.fail("create-failed/mset", fmt.Sprintf("%q failed: %s", args, r))
		return
	}
	for _, k := range keys {
		e := a.m[k]
		if e.exists && (e.deadline != 0 || e.hasAlt) {
			*e = c04Key{exists: true, kind: "string", str: "m-" + k, deadline: e.deadline, hasAlt: true}
			if e.deadline == 0 {
				e.hasAlt = false
			}
		} else {
			*e = c04Key{exists: true, kind: "string", str: "m-" + k}
		}
	}
	for _, k := range keys {
		e := a.m[k]
		if e.hasAlt {
			a.resolveAlt(k, e)
			continue
		}
		if got, ok := intReply(a.do("PEXPIRETIME", k)); !ok || got != -1 {
			a.fail("inherited-deadline/mset", fmt.Sprintf("after %q key %s, which had no live deadline of its own, reports PEXPIRETIME %d", args, k, got))
			return
		}
	}
}
