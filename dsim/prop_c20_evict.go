package dsim

// C20, profile "evict": under a memory limit and an eviction policy, connections in two databases hold keys of
// the SAME names. Memory is a global resource, so a write in database i may evict candidates of database j - but an
// eviction must remove the key of the database whose bookkeeping chose it: every eviction the max-memory logic
// reports for (database, key) removes exactly that entry, nothing vanishes from any database without such a
// report (or the command's own deletion), and the bookkeeping of a database holds no residue of removed keys.

import (
	"fmt"
	"sort"
	"strconv"
	"strings"
	"sync"
	"testing"
	"time"
)

func genC20Evict(r *Rng, tier string, p *Plan) *Plan {
	p.Profile = "evict"
	p.SKnobs["policy"] = Pick(r, []string{"allkeys-lfu", "allkeys-lru", "volatile-lru", "volatile-lfu"})
	p.Knobs["fit"] = int64(r.Range(4, 10))
	nkeys := r.Range(3, 8)
	n := r.Range(10, 40)
	if tier == "thorough" {
		n = r.Range(10, 100)
	}
	for i := 0; i < n; i++ {
		k := "k" + strconv.Itoa(r.Intn(nkeys))
		db := int64(r.Intn(2))
		switch x := r.Intn(100); {
		case x < 55:
			a := []string{"SET", k, "val-" + strings.Repeat("x", r.Range(0, 24))}
			// database 1 mostly holds volatile keys, database 0 mostly persistent ones: under a volatile policy the
			// candidates then live in one database and their namesakes in the other
			if (db == 1 && r.Chance(0.8)) || (db == 0 && r.Chance(0.15)) {
				a = append(a, "EX", strconv.Itoa(r.Range(1000, 5000)))
			}
			p.Ops = append(p.Ops, Op{Args: a, N: db})
		case x < 75:
			p.Ops = append(p.Ops, Op{Args: []string{"GET", k}, N: db})
		case x < 85:
			p.Ops = append(p.Ops, Op{Args: []string{"DEL", k}, N: db})
		default:
			p.Ops = append(p.Ops, Op{Args: []string{"SET", "big" + strconv.Itoa(i), strings.Repeat("B", r.Range(40, 160))}, N: db})
		}
	}
	return p
}

func runC20Evict(t *testing.T, p *Plan) *Outcome {
	o := &Outcome{Trivial: true}
	var names []string
	fail := func(sig, detail string) {
		if o.Sig == "" {
			o.Sig, o.Detail = "C20/"+sig, detail
		}
	}
	br := RunBubble(t, func() {
		s := NewSim()
		s.install()
		defer s.uninstall()
		probe, err := s.Boot(99, BaseConfig)
		if err != nil {
			fail("boot-failed", fmt.Sprint(err))
			return
		}
		s.NewEmbeddedClient(probe, "p").DoSync("SET", "k0", "val-xxxxxx")
		per := probe.DB.VerifDump().DBs[0]["k0"].Mem
		s.KillInstance(99)
		cfg := BaseConfig
		cfg.EvictionPolicy = p.SK("policy")
		cfg.MaxMemory = uint64(per * p.K("fit"))
		cfg.EvictionInterval = time.Hour
		inst, err := s.Boot(1, cfg)
		if err != nil {
			fail("boot-failed", fmt.Sprint(err))
			return
		}
		cl := []*Client{s.NewTCPClient(inst, "d0"), s.NewTCPClient(inst, "d1")}
		cl[1].DoSync("SELECT", "1")
		type note struct {
			db  int
			key string
		}
		var notes []note
		var mu sync.Mutex
		s.OnEvict = func(db int, key string, used int64, lim uint64) {
			mu.Lock()
			notes = append(notes, note{db, key})
			mu.Unlock()
		}
		for i, op := range p.Ops {
			if o.Sig != "" {
				break
			}
			s.AdvanceSync(3 * time.Millisecond)
			db := int(op.N) % 2
			name := strings.ToUpper(op.Args[0])
			names = append(names, name+"@"+strconv.Itoa(db))
			before := inst.DB.VerifDump()
			mu.Lock()
			notes = notes[:0]
			mu.Unlock()
			r := cl[db].DoSync(op.Args...)
			if r.Panic != "" {
				fail("panic/"+name, r.Panic)
				break
			}
			after := inst.DB.VerifDump()
			reported := map[string]int{}
			for _, n := range notes {
				reported[strconv.Itoa(n.db)+"/"+n.key]++
			}
			if len(notes) > 0 {
				o.Trivial = false
			}
			var vanished []string
			for d, data := range before.DBs {
				for k := range data {
					if _, still := after.DBs[d][k]; still {
						continue
					}
					id := strconv.Itoa(d) + "/" + k
					if name == "DEL" && d == db && k == op.Args[1] {
						continue
					}
					vanished = append(vanished, id)
					if reported[id] == 0 {
						fail("evicted-from-wrong-database", fmt.Sprintf("op %d %q (database %d): %s vanished although the max-memory logic reported no eviction of it (reported: %v)", i, op.Args, db, id, keysOfInt(reported)))
					}
				}
			}
			sort.Strings(vanished)
			for id := range reported {
				d, k := splitID(id)
				_, was := before.DBs[d][k]
				_, still := after.DBs[d][k]
				written := name == "SET" && d == db && k == op.Args[1]
				if was && still && !written {
					fail("eviction-missed-its-database", fmt.Sprintf("op %d %q (database %d): the max-memory logic chose %s for eviction but that entry is still there; vanished instead: %v", i, op.Args, db, id, vanished))
				}
			}
			for d := range after.DBs {
				for hn, heap := range map[string][]string{"lru": after.LRU[d], "lfu": after.LFU[d], "volatile-index": after.Volatile[d]} {
					for _, k := range heap {
						if _, ok := after.DBs[d][k]; !ok {
							fail("bookkeeping-residue/"+hn, fmt.Sprintf("op %d %q (database %d): %d/%s is gone from the store but still in the %s of database %d", i, op.Args, db, d, k, hn, d))
						}
					}
				}
			}
		}
		o.Stats = s.Stats
	})
	if br.panicVal != nil && o.Sig == "" {
		o.Sig = "C20/panic/" + topRepoFrame(br.stack)
		o.Detail = fmt.Sprintf("%v\n%s", br.panicVal, br.stack)
	}
	o.Class = "evict|" + p.SK("policy") + "|" + strings.Join(names, ",")
	o.Sample = map[string]any{"profile": "evict", "policy": p.SK("policy"), "commands": names}
	return o
}

func keysOfInt(m map[string]int) []string {
	out := make([]string, 0, len(m))
	for k := range m {
		out = append(out, k)
	}
	sort.Strings(out)
	return out
}
