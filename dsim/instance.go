package dsim

// Instances of the system under test and simulated clients.

import (
	"fmt"
	"os"
	"runtime"
	"strings"
	"time"

	"github.com/echovault/sugardb/sugardb"
)

// BaseConfig is evaluated once, outside any bubble (it touches the net resolver).
var BaseConfig sugardb.VerifConfig

func initBaseConfig() {
	BaseConfig = sugardb.DefaultConfig()
	BaseConfig.DataDir = ""
	BaseConfig.SnapshotInterval = 0
}

type Instance struct {
	ID    int
	DB    *sugardb.SugarDB
	Cfg   sugardb.VerifConfig
	Dead  bool
	Panic string // a panic raised by system code in a goroutine we own
	sim   *Sim
	conns int
}

// Boot constructs an instance inside a dedicated pass-through goroutine so that
// every goroutine the constructor starts is attributed to this instance.
func (s *Sim) Boot(id int, cfg sugardb.VerifConfig) (*Instance, error) {
	inst := &Instance{ID: id, Cfg: cfg, sim: s}
	var err error
	done := make(chan struct{})
	was := s.passAll.Load()
	s.passAll.Store(true)
	go func() {
		defer close(done)
		g := goid()
		s.mu.Lock()
		s.nextID++
		s.tasks[g] = &Task{ID: s.nextID, Goid: g, Name: fmt.Sprintf("boot%d", id), Inst: id, Owned: true, BirthStep: s.Step, wake: make(chan struct{}, 1)}
		s.mu.Unlock()
		defer func() {
			if r := recover(); r != nil {
				inst.Panic = fmt.Sprintf("boot panic: %v\n%s", r, shortStack())
				err = fmt.Errorf("boot panic: %v", r)
			}
			s.mu.Lock()
			s.tasks[g].Done = true
			s.mu.Unlock()
		}()
		inst.DB, err = sugardb.NewSugarDB(sugardb.WithConfig(cfg))
	}()
	<-done
	s.Settle()
	s.passAll.Store(was)
	return inst, err
}

func shortStack() string {
	buf := make([]byte, 1<<14)
	n := runtime.Stack(buf, false)
	lines := strings.Split(string(buf[:n]), "\n")
	var keep []string
	for _, l := range lines {
		if strings.Contains(l, "echovault/sugardb") || strings.Contains(l, "panic") {
			keep = append(keep, strings.TrimSpace(l))
		}
		if len(keep) > 24 {
			break
		}
	}
	return strings.Join(keep, "\n")
}

// topRepoFrame extracts the first frame under the repository from a stack text.
func topRepoFrame(stack string) string {
	for _, l := range strings.Split(stack, "\n") {
		l = strings.TrimSpace(l)
		if strings.HasPrefix(l, "github.com/echovault/sugardb/") && !strings.Contains(l, "verifhook") {
			if i := strings.IndexByte(l, '('); i > 0 {
				l = l[:i]
			}
			return strings.TrimPrefix(l, "github.com/echovault/sugardb/")
		}
	}
	return "?"
}

// ---- clients ---------------------------------------------------------------

type Client struct {
	Name     string
	Inst     *Instance
	TCP      bool
	conn     *SimConn // client side
	srv      *SimConn
	SrvPanic string // panic raised inside the server's connection loop
	SrvDone  bool
	sim      *Sim
	rbuf     []byte
}

// NewTCPClient opens a simulated connection served by the real handleConnection loop.
func (s *Sim) NewTCPClient(inst *Instance, name string) *Client {
	c := &Client{Name: name, Inst: inst, TCP: true, sim: s}
	c.conn, c.srv = NewConnPair(name)
	s.mu.Lock()
	s.allConns = append(s.allConns, c.conn, c.srv)
	s.mu.Unlock()
	inst.conns++
	started := make(chan struct{})
	// the connection's registration (ACL table, connection table) is not part of any command: it runs through
	wasPass := s.passAll.Load()
	s.passAll.Store(true)
	defer s.passAll.Store(wasPass)
	go func() {
		g := goid()
		s.mu.Lock()
		s.nextID++
		t := &Task{ID: s.nextID, Goid: g, Name: "srv:" + name, Inst: inst.ID, Owned: true, BirthStep: s.Step, wake: make(chan struct{}, 1)}
		s.tasks[g] = t
		s.mu.Unlock()
		close(started)
		defer func() {
			if r := recover(); r != nil {
				c.SrvPanic = fmt.Sprintf("%v\n%s", r, shortStack())
				c.srv.Close()
			}
			c.SrvDone = true
			s.mu.Lock()
			t.Done = true
			t.Parked = false
			s.mu.Unlock()
		}()
		inst.DB.VerifServeConn(c.srv)
	}()
	<-started
	s.Settle()
	return c
}

func (s *Sim) NewEmbeddedClient(inst *Instance, name string) *Client {
	return &Client{Name: name, Inst: inst, sim: s}
}

// Result of one command.
type Result struct {
	Raw      []byte
	Reply    Reply
	Err      string // embedded API error (or "-Error ..." mapped for TCP stays in Reply)
	ParseErr string // reply bytes not well-formed RESP
	NoReply  bool   // TCP: nothing came back
	Extra    int    // TCP: extra complete replies after the first
	Panic    string
	Closed   bool
}

func (r Result) IsError() bool {
	return r.Err != "" || (r.ParseErr == "" && !r.NoReply && r.Reply.Kind == RError)
}

// Short rendering for logs and signatures.
func (r Result) String() string {
	switch {
	case r.Panic != "":
		return "PANIC " + topRepoFrame(r.Panic)
	case r.Err != "":
		return "ERR"
	case r.ParseErr != "":
		return fmt.Sprintf("MALFORMED(%s) %q", r.ParseErr, trunc(string(r.Raw), 80))
	case r.NoReply:
		return "NOREPLY"
	case r.Reply.Kind == RError:
		return "ERR"
	}
	s := r.Reply.String()
	if r.Extra > 0 {
		s += fmt.Sprintf(" +%d extra", r.Extra)
	}
	return s
}

func trunc(s string, n int) string {
	if len(s) > n {
		return s[:n] + "..."
	}
	return s
}

// DoSync executes one command with every hook passing through (command granularity)
// and returns once the whole system is quiescent again. Controller goroutine only.
func (c *Client) DoSync(args ...string) Result { return c.do(true, args) }

// DoFiltered executes one command while only the yield sites listed in Sim.sites park
// (everything else passes through): used when just a few background tasks are scheduled by the dice.
func (c *Client) DoFiltered(args ...string) Result { return c.do(false, args) }

func (c *Client) do(pass bool, args []string) Result {
	s := c.sim
	was := s.passAll.Load()
	s.passAll.Store(pass)
	defer s.passAll.Store(was)
	if c.TCP {
		c.conn.Take()
		if _, err := c.conn.Write(EncodeCmd(args...)); err != nil {
			return Result{Closed: true, Panic: c.SrvPanic}
		}
		s.Settle()
		return c.collect()
	}
	return c.execEmbedded(args)
}

func (c *Client) execEmbedded(args []string) (res Result) {
	s := c.sim
	done := make(chan struct{})
	go func() {
		defer close(done)
		g := goid()
		s.mu.Lock()
		s.nextID++
		t := &Task{ID: s.nextID, Goid: g, Name: "emb:" + c.Name, Inst: c.Inst.ID, Owned: true, BirthStep: s.Step, wake: make(chan struct{}, 1)}
		s.tasks[g] = t
		s.mu.Unlock()
		defer func() {
			if r := recover(); r != nil {
				res.Panic = fmt.Sprintf("%v\n%s", r, shortStack())
			}
			s.mu.Lock()
			t.Done = true
			s.mu.Unlock()
		}()
		raw, err := c.Inst.DB.ExecuteCommand(args...)
		res = decodeEmbedded(raw, err)
	}()
	<-done
	s.Settle()
	return res
}

func decodeEmbedded(raw []byte, err error) Result {
	res := Result{Raw: raw}
	if err != nil {
		res.Err = err.Error()
		return res
	}
	if len(raw) == 0 {
		res.NoReply = true
		return res
	}
	r, n, perr := ParseReply(raw)
	if perr != nil {
		res.ParseErr = perr.Error()
		return res
	}
	res.Reply = r
	if n < len(raw) {
		rest, _, e2 := ParseAll(raw[n:])
		if e2 != nil || len(rest) == 0 {
			res.ParseErr = "trailing bytes after reply"
		} else {
			res.Extra = len(rest)
		}
	}
	return res
}

// collect parses whatever the server wrote back for the last request.
func (c *Client) collect() Result {
	raw := c.conn.Take()
	res := Result{Raw: raw, Panic: c.SrvPanic}
	if res.Panic != "" {
		return res
	}
	if len(raw) == 0 {
		res.NoReply = true
		res.Closed = c.conn.PeerClosed()
		return res
	}
	r, n, err := ParseReply(raw)
	if err != nil {
		res.ParseErr = err.Error()
		return res
	}
	res.Reply = r
	if n < len(raw) {
		more, rest, e2 := ParseAll(raw[n:])
		if e2 != nil || len(rest) > 0 {
			res.ParseErr = "trailing bytes after reply"
		}
		res.Extra = len(more)
	}
	return res
}

// Start issues a command from a controlled task: the returned task parks at "start";
// each keyspace step of the command is then a controller decision. done is called with the result.
func (c *Client) Start(args []string, done func(Result)) *Task {
	s := c.sim
	if !c.TCP {
		return s.Spawn("emb:"+c.Name+":"+strings.ToLower(args[0]), c.Inst.ID, func() {
			var res Result
			defer func() {
				if r := recover(); r != nil {
					res.Panic = fmt.Sprintf("%v\n%s", r, shortStack())
				}
				done(res)
			}()
			raw, err := c.Inst.DB.ExecuteCommand(args...)
			res = decodeEmbedded(raw, err)
		})
	}
	return s.Spawn("tcp:"+c.Name+":"+strings.ToLower(args[0]), c.Inst.ID, func() {
		c.conn.Take()
		if _, err := c.conn.Write(EncodeCmd(args...)); err != nil {
			done(Result{Closed: true, Panic: c.SrvPanic})
			return
		}
		// wait for one complete reply (or close)
		var buf []byte
		tmp := make([]byte, 65536)
		for {
			if _, _, err := ParseReply(buf); err != ErrIncomplete {
				break
			}
			n, err := c.conn.Read(tmp)
			buf = append(buf, tmp[:n]...)
			if err != nil {
				break
			}
		}
		res := Result{Raw: buf, Panic: c.SrvPanic}
		if len(buf) == 0 {
			res.NoReply = true
			res.Closed = true
		} else if r, _, err := ParseReply(buf); err != nil {
			res.ParseErr = err.Error()
		} else {
			res.Reply = r
		}
		done(res)
	})
}

// Close closes the client side of a TCP connection.
func (c *Client) Close() {
	if c.TCP {
		c.conn.Close()
		c.sim.Settle()
	}
}

var _ = time.Now

// harnessEnvCheck aborts the worker (exit 2: harness trouble, never a violation) when an error comes
// from the sandbox rather than from the system under test.
func harnessEnvCheck(err error) {
	if err == nil {
		return
	}
	msg := err.Error()
	for _, bad := range []string{"too many open files", "no space left on device", "cannot allocate memory"} {
		if strings.Contains(msg, bad) {
			fmt.Fprintf(os.Stderr, "HARNESS: environment error: %v\n", err)
			os.Exit(2)
		}
	}
}
