package dsim

// C19 — reported memory usage is a function of the current dataset.
//
// Metamorphic oracle without mirrored constants: the figure must equal the sum, over the keys
// currently stored, of what the implementation itself accounts for that key when it is inserted
// into an empty server (KeyData.GetMem + key header + key bytes, exported per entry by VerifDump).

import (
	"fmt"
	"os"
	"path/filepath"
	"strconv"
	"strings"
	"testing"
	"time"
)

func init() {
	register(&PropDef{
		ID: "C19",
		Rule: "plan = command histories over all value types and 1-2 databases (overwrites, in-place growth and shrink of collections, deletes, renames, expiry with clock advances - lazy and sampler -, eviction under a memory limit in a third of the runs, FLUSHDB/FLUSHALL) with the usage figure checked after every command; " +
			"non-trivial = at least one key existed when the figure was checked; distinct = hash of the command-name sequence and policy",
		Gen:         genC19,
		Run:         runC19,
		Real:        []string{"memUsed accounting in setValues/deleteKey/Flush", "KeyData.GetMem, Set.GetMem, SortedSet.GetMem", "eviction and expiry paths that delete keys", "GetServerInfo"},
		Stub:        []string{"wall clock", "goroutine scheduler choice (bookkeeping goroutines run to quiescence after each command)"},
		Assumptions: []string{"the per-entry accounted size is the implementation's own GetMem of the stored value plus key header and bytes: the property is about the figure being a function of the dataset, not about the byte constants"},
	})
}

func genC19(r *Rng, tier string, idx int) *Plan {
	p := &Plan{Profile: "history", Knobs: map[string]int64{}, SKnobs: map[string]string{}}
	p.SKnobs["policy"] = "noeviction"
	if idx%3 == 1 {
		p.SKnobs["policy"] = Pick(r, []string{"allkeys-lfu", "allkeys-random", "volatile-lfu", "allkeys-lru"})
		p.Knobs["limit"] = int64(r.Range(300, 1500))
	}
	if idx%6 == 3 {
		// no eviction, but a limit: at or above it writes are refused - whatever a refused write did before it was
		// refused (collections are changed in place), the figure still is that of the dataset
		p.Knobs["limit"] = int64(r.Range(150, 700))
	}
	p.Knobs["dbs"] = int64(r.Range(1, 2))
	if idx%3 == 2 {
		// commands of two connections interleaved with each other and with the asynchronous eviction bookkeeping
		// (every keyspace step, store-lock acquisition and bookkeeping goroutine scheduled by the dice) under a
		// memory limit; the figure is checked once everything has quiesced
		p.Profile = "conc"
		p.SKnobs["policy"] = Pick(r, []string{"allkeys-lfu", "allkeys-lru", "allkeys-lru", "volatile-lru"})
		p.Knobs["limit"] = int64(r.Range(120, 600))
		p.Dice = drawDice(r, 192)
	}
	if p.Profile == "conc" && r.Chance(0.4) {
		// "tight": one collection whose creation just fits under the limit; every in-place growth carries the figure
		// across it once the re-measuring pass has run, so the bookkeeping goroutines evict - next to the
		// re-measuring pass of the other command of the pair
		p.Knobs["tight"] = int64(r.Range(1, 24))
		p.SKnobs["policy"] = Pick(r, []string{"allkeys-lru", "allkeys-lfu"})
		p.Knobs["dbs"] = 1
		m := 0
		mem := func(n int) []string {
			var out []string
			for i := 0; i < n; i++ {
				m++
				out = append(out, fmt.Sprintf("m%d", m))
			}
			return out
		}
		for i, n := 0, r.Range(3, 10); i < n; i++ {
			p.Ops = append(p.Ops, Op{Kind: "ensure", Args: []string{"SADD", "k1", "m0"}})
			p.Ops = append(p.Ops, Op{Kind: "pairA", Args: append([]string{"SADD", "k1"}, mem(r.Range(1, 3))...)},
				Op{Kind: "pairB", Args: append([]string{Pick(r, []string{"SADD", "SADD", "SREM"}), "k1"}, mem(r.Range(1, 3))...)})
		}
		return p
	}
	g := &GenCfg{Keys: []string{"k1", "k2", "k3", "k4"}, NowMs: 946684800000, Writes: true}
	if p.Profile == "conc" {
		// few keys, mostly collections that grow and shrink in place: the usage figure then changes in the
		// re-measuring pass after the handler, the step that races with the eviction bookkeeping
		g = &GenCfg{Keys: []string{"k1", "k2"}, NowMs: 946684800000, Writes: true, NoRandom: true, Families: map[string]bool{"set": true, "zset": true, "hash": true, "list": true}}
	}
	n := r.Range(5, 30)
	if tier == "thorough" {
		n = r.Range(5, 80)
	}
	if p.Profile == "history" && p.SKnobs["policy"] == "noeviction" && idx%2 == 0 {
		// the history is logged to the append-only file and the server is restarted from it: the figure is a
		// function of the dataset, so it is the same before and after
		p.Knobs["aof"] = 1
	}
	for i := 0; i < n; i++ {
		if p.Knobs["aof"] == 1 && r.Chance(0.08) {
			p.Ops = append(p.Ops, Op{Kind: "restart"})
			continue
		}
		if r.Chance(0.08) {
			p.Ops = append(p.Ops, Op{Kind: "advance", N: int64(Pick(r, []int{100, 1000, 5000, 60000, 200000}))})
			continue
		}
		if p.Profile == "conc" && r.Chance(0.8) {
			// a pair: a write (often growing or shrinking a collection in place) next to a command of another
			// connection that touches keys (and so triggers the bookkeeping that may evict)
			gr := &GenCfg{Keys: g.Keys, NowMs: g.NowMs, NoRandom: true}
			p.Ops = append(p.Ops, Op{Kind: "pairA", Args: g.Cmd(r), N: int64(r.Intn(int(p.Knobs["dbs"])))},
				Op{Kind: "pairB", Args: gr.Cmd(r), N: int64(r.Intn(int(p.Knobs["dbs"])))})
			continue
		}
		p.Ops = append(p.Ops, Op{Args: g.Cmd(r), N: int64(r.Intn(int(p.Knobs["dbs"])))})
	}
	return p
}

func runC19(t *testing.T, p *Plan) *Outcome {
	o := &Outcome{Trivial: true}
	var names []string
	fail := func(sig, detail string) {
		if o.Sig == "" {
			o.Sig, o.Detail = "C19/"+sig, detail
		}
	}
	root := filepath.Join(scratchDir(), fmt.Sprintf("r%d", runCounter.Add(1)))
	if p.K("aof") == 1 {
		_ = os.MkdirAll(root, 0o755)
		defer os.RemoveAll(root)
	}
	br := RunBubble(t, func() {
		s := NewSim()
		s.logOn = p.Profile == "conc"
		s.install()
		defer s.uninstall()
		cfg := BaseConfig
		cfg.EvictionPolicy = p.SK("policy")
		cfg.MaxMemory = uint64(p.K("limit"))
		if p.K("tight") > 0 {
			// the limit is what the one-member collection occupies plus a few bytes (measured on a scratch instance)
			probe, err := s.Boot(99, BaseConfig)
			if err != nil {
				fail("boot-failed", fmt.Sprint(err))
				return
			}
			s.NewEmbeddedClient(probe, "p").DoSync("SADD", "k1", "m0")
			cfg.MaxMemory = uint64(probe.DB.VerifDump().DBs[0]["k1"].Mem + p.K("tight"))
			s.KillInstance(99)
		}
		cfg.EvictionInterval = 500 * time.Millisecond
		if p.K("aof") == 1 {
			cfg.DataDir = filepath.Join(root, "g1")
			cfg.RestoreAOF = true
			cfg.AOFSyncStrategy = "always"
		}
		inst, err := s.Boot(1, cfg)
		if err != nil {
			fail("boot-failed", fmt.Sprint(err))
			return
		}
		var clients []*Client
		connect := func(g int) {
			clients = []*Client{s.NewTCPClient(inst, fmt.Sprintf("g%dd0", g))}
			if p.K("dbs") > 1 {
				c1 := s.NewTCPClient(inst, fmt.Sprintf("g%dd1", g))
				c1.DoSync("SELECT", "1")
				clients = append(clients, c1)
			}
		}
		connect(1)
		gen := 1
		check := func(i int, what string) {
			st := inst.DB.VerifDump()
			var sum int64
			n := 0
			for _, data := range st.DBs {
				for _, e := range data {
					sum += e.Mem
					n++
				}
			}
			if n > 0 {
				o.Trivial = false
			}
			if st.MemUsed == sum {
				return
			}
			kind := "drift-up"
			switch {
			case st.MemUsed < 0:
				kind = "negative"
			case n == 0:
				kind = "nonzero-empty"
			case st.MemUsed < sum:
				kind = "drift-down"
			}
			fail(kind+"/"+what, fmt.Sprintf("after op %d (%s): reported usage %d, the %d stored keys account for %d", i, what, st.MemUsed, n, sum))
		}
		dice := p.NewDice()
		// second connection per database for the concurrent pairs
		var clientsB []*Client
		if p.Profile == "conc" {
			clientsB = []*Client{s.NewTCPClient(inst, "e0")}
			if p.K("dbs") > 1 {
				c1 := s.NewTCPClient(inst, "e1")
				c1.DoSync("SELECT", "1")
				clientsB = append(clientsB, c1)
			}
		}
		for i := 0; i < len(p.Ops); i++ {
			op := p.Ops[i]
			if o.Sig != "" {
				break
			}
			if op.Kind == "pairA" && i+1 < len(p.Ops) && p.Ops[i+1].Kind == "pairB" && clientsB != nil {
				opB := p.Ops[i+1]
				i++
				nameA, nameB := strings.ToUpper(op.Args[0]), strings.ToUpper(opB.Args[0])
				names = append(names, nameA+"||"+nameB)
				pending := 2
				cb := func(r Result) {
					pending--
					if r.Panic != "" {
						fail("panic/conc", r.Panic)
					}
				}
				clients[int(op.N)%len(clients)].Start(op.Args, cb)
				clientsB[int(opB.N)%len(clientsB)].Start(opB.Args, cb)
				for st := 0; st < 3000 && o.Sig == ""; st++ {
					parked := s.ParkedTasks()
					if len(parked) == 0 {
						break
					}
					tk, stuck := PickFair(parked, dice.Next(len(parked)), 300)
					// bias (half of the decisions): when the re-measuring pass of a write command stands in front of the
					// store lock, let the other store-lock sections (bookkeeping goroutines, the partner command) go
					// first - the window in which the figure and the dataset can drift apart
					if tk.Bookkeeping && dice.Next(2) == 0 {
						for _, x := range parked {
							if !x.Bookkeeping && (x.Site == "lock.store" || x.Site == "ks.updateKeysInCache") {
								tk = x
								break
							}
						}
					}
					s.noteChoice(len(parked), tk.Site)
					if stuck {
						fail("livelock/"+tk.Site, fmt.Sprintf("%q || %q: task t%d spun %d times at %s", op.Args, opB.Args, tk.ID, tk.Spins, tk.Site))
						break
					}
					s.Release(tk)
				}
				s.DrainAll(3000)
				if pending > 0 && o.Sig == "" {
					fail("conc/never-answered", fmt.Sprintf("%q || %q: %d command(s) never answered", op.Args, opB.Args, pending))
				}
				check(i, "conc")
				continue
			}
			if op.Kind == "pairA" || op.Kind == "pairB" {
				op.Kind = ""
			}
			if op.Kind == "ensure" {
				// (re)create the collection if an eviction removed it
				if _, ok := inst.DB.VerifDump().DBs[0][op.Args[1]]; ok {
					continue
				}
				op.Kind = ""
			}
			if op.Kind == "restart" {
				if p.K("aof") != 1 {
					continue
				}
				names = append(names, "restart")
				st := inst.DB.VerifDump()
				now := nowMs()
				live := StripExpired(st, now, false)
				pure := len(live) == len(DataMap(st, false)) // no expired-but-present entry (a restart drops those)
				used := st.MemUsed
				s.KillInstance(gen)
				img := filepath.Join(root, fmt.Sprintf("g%d", gen+1))
				copyTree(cfg.DataDir, img)
				cfg.DataDir = img
				gen++
				var err error
				inst, err = s.Boot(gen, cfg)
				if err != nil || inst.Panic != "" {
					fail("restart-failed", fmt.Sprintf("%v %s", err, inst.Panic))
					break
				}
				connect(gen)
				st2 := inst.DB.VerifDump()
				live2 := StripExpired(st2, nowMs(), false)
				pure = pure && len(live2) == len(DataMap(st2, false)) // replay may re-create an entry whose deadline has passed
				if pure && mapsEqual(live2, live) && st2.MemUsed != used {
					fail("restart-changed-figure", fmt.Sprintf("after op %d: the server restarted from its append-only file holds the same dataset (%d keys) but reports usage %d; before the restart it reported %d", i, len(live), st2.MemUsed, used))
					break
				}
				check(i, "restart")
				continue
			}
			if op.Kind == "advance" {
				names = append(names, "adv")
				s.AdvanceSync(time.Duration(op.N) * time.Millisecond)
				check(i, "expiry")
				continue
			}
			name := strings.ToUpper(op.Args[0])
			names = append(names, name)
			r := clients[int(op.N)%len(clients)].DoSync(op.Args...)
			if r.Panic != "" {
				fail("panic/"+name, r.Panic)
				break
			}
			check(i, opClass(name))
		}
		o.Stats = s.Stats
		o.Log = s.Log
		o.Sched = s.schedHash
	})
	if br.panicVal != nil && o.Sig == "" {
		o.Sig = "C19/panic/" + topRepoFrame(br.stack)
		o.Detail = fmt.Sprintf("%v\n%s", br.panicVal, br.stack)
	}
	o.Class = p.SK("policy") + "|" + strings.Join(names, ",")
	o.Sample = map[string]any{"policy": p.SK("policy"), "limit": strconv.FormatInt(p.K("limit"), 10), "commands": names}
	return o
}

// opClass groups commands by how they change the dataset (for signatures).
func opClass(name string) string {
	switch name {
	case "DEL", "GETDEL":
		return "delete"
	case "FLUSHDB", "FLUSHALL":
		return "flush"
	case "RENAME":
		return "rename"
	case "SET", "MSET", "INCR", "DECR", "INCRBY", "DECRBY", "INCRBYFLOAT", "APPEND", "SETRANGE":
		return "string-write"
	case "EXPIRE", "PEXPIRE", "EXPIREAT", "PEXPIREAT", "PERSIST", "GETEX":
		return "deadline"
	}
	if sp := specByName[name]; sp != nil {
		return sp.Family + "-write"
	}
	return "other"
}
