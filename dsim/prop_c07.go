package dsim

// C07 — replication: replicas apply the leader's writes identically, in order.

import (
	"encoding/json"
	"fmt"
	"math/rand"
	"os"
	"sort"
	"strconv"
	"strings"
	"testing"
	"time"
)

func init() {
	register(&PropDef{
		ID: "C07",
		Rule: "plan = 3 (quick) or 3-5 (thorough) nodes on the consensus stub, clients connected to arbitrary nodes and databases, forwarding on/off, every replicated write command, follower lag decided by the dice (who applies the next entry), leadership transfer, stale leader, node crash/restart (with FSM snapshots and restore from own/leader/no snapshot), gossip loss/duplication/reordering, clock advances; " +
			"non-trivial = at least 2 entries committed and a convergence check ran; distinct = hash of (fault sequence, apply interleaving, command-name sequence)",
		Gen:  genC07,
		Run:  runC07,
		Real: []string{"handleCommand cluster branch", "raftApplyCommand/raftApplyDeleteKey", "raft.FSM Apply/Snapshot/Restore", "FSMSnapshot.Persist", "memberlist.Delegate NotifyMsg/GetBroadcasts", "BroadcastMessage.Invalidates + TransmitLimitedQueue", "ForwardDataMutation/ForwardDeleteKey", "all command handlers"},
		Stub: []string{"hashicorp/raft (consensus stub: ordered committed log, per-node apply tasks, futures, snapshot/restore driver)", "hashicorp/memberlist transport (simulated gossip network)", "raft.go / memberlist.go wiring (verif twins)", "TCP sockets"},
		Assumptions: []string{
			"the stub gives the state machine the contract hashicorp/raft gives it (one order, one Apply at a time per node) - the library itself is not exercised",
			"a proposal on a node that is not (or no longer) leader fails; entries already in the log stay committed",
		},
	})
}

func genC07(r *Rng, tier string, idx int) *Plan {
	p := &Plan{Profile: "cluster", Knobs: map[string]int64{}, SKnobs: map[string]string{}}
	nodes := 3
	if tier == "thorough" && r.Chance(0.3) {
		nodes = r.Range(3, 5)
	}
	p.Knobs["nodes"] = int64(nodes)
	p.Knobs["forward"] = int64(r.Intn(2))
	if idx%4 == 2 {
		// every node runs with the same memory limit and no eviction: writes are refused at or above the limit, on
		// every node alike (the figure is part of the replicated state machine's behaviour)
		p.Knobs["maxmem"] = int64(r.Range(250, 1200))
	}
	p.Knobs["drop"] = int64(Pick(r, []int{0, 0, 10, 30}))
	p.Knobs["dup"] = int64(Pick(r, []int{0, 0, 20}))
	for i := 0; i < nodes; i++ {
		p.Knobs["db"+strconv.Itoa(i)] = Pick(r, []int64{0, 0, 1, 2, 10})
	}
	g := &GenCfg{Keys: []string{"k1", "k2", "k3"}, Writes: true, NowMs: 946684800000, NoFlush: false}
	n := r.Range(4, 16)
	if tier == "thorough" {
		n = r.Range(4, 40)
	}
	uniq := 0
	if idx%8 == 5 {
		// expiry in lockstep: a key with an absolute deadline is replicated and applied by every node, the deadline
		// passes on the (shared) clock, the key is collected through the log - raised by a read on the leader or by
		// the rewrite itself - and rewritten at once. Every node is at the same log position and reads the same
		// clock when the deadline passes, so the recorded divergences of expiry at apply time cannot occur: the
		// rewrite is acknowledged, read back, and on every replica.
		p.Profile = "expiry"
		p.Knobs["drop"], p.Knobs["dup"] = 0, 0
		for round, rounds := 0, r.Range(1, 3); round < rounds; round++ {
			k := g.key(r)
			for i, n := 0, r.Intn(3); i < n; i++ {
				p.Ops = append(p.Ops, Op{C: 0, Args: g.Cmd(r), S: "leader-relative"})
			}
			uniq++
			p.Ops = append(p.Ops, Op{Kind: "expiring", Args: []string{"SET", k, fmt.Sprintf("old%d", uniq)}, N: int64(r.Range(20, 400))})
			p.Ops = append(p.Ops, Op{Kind: "drain"})
			p.Ops = append(p.Ops, Op{Kind: "advance", N: int64(Pick(r, []int{500, 1000, 7000}))})
			uniq++
			v := fmt.Sprintf("u%d", uniq)
			rw := Pick(r, [][]string{{"SET", k, v}, {"SET", k, v}, {"HSET", k, "f", v}, {"RPUSH", k, v}, {"SADD", k, v}, {"MSET", k, v, "other", "x"}})
			p.Ops = append(p.Ops, Op{Kind: "expired-rewrite", Args: rw, N: int64(r.Intn(3))})
		}
		p.Dice = drawDice(r, 512)
		return p
	}
	if idx%4 == 3 {
		// snapshot/restore sub-profile: writes (with deadlines), a raft snapshot on a follower, its crash, more writes, restart
		p.Profile = "snaprestore"
		victim := int64(r.Range(1, nodes-1))
		w := func(k int) {
			for i := 0; i < k; i++ {
				a := g.Cmd(r)
				if r.Chance(0.35) {
					a = specByName[Pick(r, []string{"SETEXAT", "EXPIREAT", "SET", "HSET"})].Gen(r, g)
				}
				p.Ops = append(p.Ops, Op{C: 0, Args: a, S: "leader-relative"})
			}
		}
		w(r.Range(2, 8))
		p.Ops = append(p.Ops, Op{Kind: "steps", N: 30})
		p.Ops = append(p.Ops, Op{Kind: "snapshot", N: victim})
		p.Ops = append(p.Ops, Op{Kind: "steps", N: int64(r.Range(5, 30))})
		if r.Chance(0.5) {
			w(r.Range(1, 3))
		}
		p.Ops = append(p.Ops, Op{Kind: "crash", N: victim})
		w(r.Range(0, 4))
		if r.Chance(0.3) {
			p.Ops = append(p.Ops, Op{Kind: "advance", N: int64(Pick(r, []int{10, 1000}))})
		}
		p.Ops = append(p.Ops, Op{Kind: "restart", N: victim})
		p.Ops = append(p.Ops, Op{Kind: "steps", N: int64(r.Range(5, 40))})
		w(r.Range(0, 3))
		p.Dice = drawDice(r, 512)
		return p
	}
	for i := 0; i < n; i++ {
		switch x := r.Intn(100); {
		case x < 55:
			target := 0 // mostly the leader's client
			if r.Chance(0.35) {
				target = r.Intn(nodes)
			}
			a := g.Cmd(r)
			if p.Knobs["maxmem"] > 0 && r.Chance(0.7) {
				// near the limit what counts is how the usage figure moves: collections that grow and shrink in place
				// by several members at once, and plain writes of different sizes
				k := g.key(r)
				switch r.Intn(8) {
				case 0:
					a = append([]string{"SADD", k}, members...)
				case 1:
					a = append([]string{"SREM", k}, members[:r.Range(2, 5)]...)
				case 2:
					a = []string{"ZADD", k, "1", "a", "2", "b", "3", "c", "4", "d", "5", "e"}
				case 3:
					a = append([]string{"ZREM", k}, members[:r.Range(2, 5)]...)
				case 4:
					a = []string{"HSET", k, "f1", strings.Repeat("h", r.Range(1, 60)), "f2", "x"}
				case 5:
					a = []string{"HDEL", k, "f1", "f2"}
				case 6:
					a = []string{"RPUSH", k, strings.Repeat("l", r.Range(1, 40)), "y"}
				default:
					a = []string{"SET", k, strings.Repeat("s", r.Range(1, 80))}
				}
			}
			if a[0] == "SET" && len(a) == 3 && p.Knobs["maxmem"] == 0 {
				uniq++
				a[2] = fmt.Sprintf("u%d", uniq)
			}
			p.Ops = append(p.Ops, Op{C: target, Args: a, S: "leader-relative"})
		case x < 62:
			uniq++
			p.Ops = append(p.Ops, Op{Kind: "setget", C: 0, Args: []string{"SET", g.key(r), fmt.Sprintf("u%d", uniq)}})
		case x < 70:
			p.Ops = append(p.Ops, Op{Kind: "elect", N: int64(r.Intn(nodes)), S: Pick(r, []string{"", "stale"})})
		case x < 76:
			p.Ops = append(p.Ops, Op{Kind: "crash", N: int64(r.Intn(nodes))})
		case x < 82:
			p.Ops = append(p.Ops, Op{Kind: "restart", N: int64(r.Intn(nodes))})
		case x < 88:
			p.Ops = append(p.Ops, Op{Kind: "snapshot", N: int64(r.Intn(nodes))})
		case x < 93:
			p.Ops = append(p.Ops, Op{Kind: "advance", N: int64(Pick(r, []int{1, 500, 1000, 7000}))})
		default:
			p.Ops = append(p.Ops, Op{Kind: "steps", N: int64(r.Range(1, 12))})
		}
	}
	p.Dice = drawDice(r, 512)
	return p
}

type c07Run struct {
	p           *Plan
	o           *Outcome
	s           *Sim
	c           *Cluster
	dice        *Dice
	nodes       int
	insts       []*Instance
	clients     []*Client
	alive       []bool
	gen         int
	names       []string
	acked       []string        // unique values acknowledged by a leader
	sawRel      bool            // a clock-relative command was committed
	sawRand     bool            // a random-by-design command was committed
	sawAbs      bool            // a command with an absolute deadline was committed
	snapRestart bool            // the plan takes raft snapshots and restarts nodes
	randKeys    map[string]bool // keys named by a random-by-design command
	expiredKeys map[string]bool // "db/key" that carried a deadline which has passed at some check
	adv         bool            // the clock was advanced after the first commit
	faults      []string
}

func (a *c07Run) fail(sig, detail string) {
	if a.o.Sig == "" {
		a.o.Sig, a.o.Detail = "C07/"+sig, detail
	}
}

func nodeID(i int) string { return "n" + strconv.Itoa(i+1) }

func (a *c07Run) bootNode(i int) bool {
	a.gen++
	cfg := BaseConfig
	cfg.ServerID = nodeID(i)
	cfg.MaxMemory = uint64(a.p.K("maxmem"))
	cfg.ForwardCommand = a.p.K("forward") == 1
	if i == 0 {
		cfg.BootstrapCluster = true
	} else {
		cfg.JoinAddr = "sim:" + nodeID(0)
	}
	id := a.gen
	a.c.booting = id
	inst, err := a.s.Boot(id, cfg)
	if err != nil || inst.Panic != "" {
		a.fail("boot-failed", fmt.Sprintf("node %s: %v %s", nodeID(i), err, inst.Panic))
		return false
	}
	a.insts[i] = inst
	a.alive[i] = true
	a.c.StartNode(nodeID(i))
	cl := a.s.NewTCPClient(inst, fmt.Sprintf("c%s.%d", nodeID(i), id))
	a.clients[i] = cl
	if db := a.p.K("db" + strconv.Itoa(i)); db != 0 {
		a.run(cl, []string{"SELECT", strconv.FormatInt(db, 10)}, 400)
	}
	return true
}

// run executes one command from a controlled client task, letting the dice decide which node's apply,
// persist or gossip task runs next, until the command is answered (or the step budget ends).
func (a *c07Run) run(cl *Client, args []string, budget int) (Result, bool) {
	var res Result
	done := false
	cl.Start(args, func(r Result) { res, done = r, true })
	for i := 0; i < budget && !done; i++ {
		parked := a.s.ParkedTasks()
		if len(parked) == 0 {
			a.s.Settle()
			if done {
				break
			}
			// nothing runnable: the command waits for something that will never come
			a.s.Advance(5 * time.Second)
			a.s.Settle()
			if done {
				break
			}
			if len(a.s.ParkedTasks()) > 0 {
				continue
			}
			a.s.HeldAcrossWait()
			return res, false
		}
		if a.spinning(parked) {
			return res, true
		}
		// the client's own start task first, then dice
		var pick *Task
		for _, t := range parked {
			if strings.HasPrefix(t.Site, "start:") && !strings.HasPrefix(t.Site, "start:apply") && !strings.HasPrefix(t.Site, "start:gossip") && !strings.HasPrefix(t.Site, "start:raft") {
				pick = t
			}
		}
		if pick == nil {
			pick = parked[a.dice.Next(len(parked))]
			a.s.noteChoice(len(parked), pick.Site)
		}
		a.s.Release(pick)
	}
	return res, done
}

// spinning reports a busy-wait that can no longer end (and records it as the violation).
func (a *c07Run) spinning(parked []*Task) bool {
	for _, t := range parked {
		if strings.HasPrefix(t.Site, "spin:") && t.Spins > 300 {
			a.fail("livelock/"+t.Site, fmt.Sprintf("task t%d of node instance %d has spun %d times at %s: the flag it waits for is held by a write command whose proposal can only complete on this very task (FSM.Snapshot runs on the apply goroutine)", t.ID, t.Inst, t.Spins, t.Site))
			return true
		}
	}
	return false
}

// expiredRewrite (profile expiry): the key named by op.Args[1] carried a deadline that has passed on every node.
func (a *c07Run) expiredRewrite(i int, op Op) {
	l := a.leaderIdx()
	if l < 0 || len(op.Args) < 3 {
		return
	}
	k := op.Args[1]
	db := strconv.FormatInt(a.p.K("db"+strconv.Itoa(l)), 10)
	for j := 0; j < a.nodes; j++ {
		if a.alive[j] && a.c.nodes[nodeID(j)].applied != a.c.nodes[nodeID(l)].applied {
			return // not in lockstep (a node is behind): the recorded expiry findings apply, not this check
		}
	}
	if e, ok := a.insts[l].DB.VerifDump().DBs[int(a.p.K("db"+strconv.Itoa(l)))][k]; ok && (e.ExpireAt == 0 || e.ExpireAt > nowMs()) {
		return // shrunk plans: the key carries no passed deadline
	}
	logBefore := len(a.c.log)
	if op.N > 0 {
		// a read on the leader finds the key expired and has it collected through the log
		a.names = append(a.names, "GET-expired@L")
		if g, done := a.run(a.clients[l], []string{ifs(op.N == 1, "EXISTS", "MGET"), k}, 1500); !done {
			a.fail("command-hangs/leader", fmt.Sprintf("op %d: a read of the expired key %s on the leader was never answered", i, k))
			return
		} else if g.Panic != "" {
			a.fail("panic/"+topRepoFrame(g.Panic), g.Panic)
			return
		}
	}
	a.names = append(a.names, strings.ToUpper(op.Args[0])+"-after-expiry@L")
	res, done := a.run(a.clients[l], op.Args, 1500)
	if !done {
		a.fail("command-hangs/leader", fmt.Sprintf("op %d %q (rewrite of the expired key) on the leader was never answered", i, op.Args))
		return
	}
	if res.IsError() {
		a.fail("expired-key-blocks-write", fmt.Sprintf("op %d %q on the leader after the key's deadline passed: %s", i, op.Args, res))
		return
	}
	if !a.drain() {
		if a.o.Sig == "" {
			a.fail("liveness/no-quiescence", "replication does not quiesce")
		}
		return
	}
	a.checkPanics()
	if a.o.Sig != "" {
		return
	}
	// acknowledged, everything delivered and applied: every replica holds the rewritten key
	for j := 0; j < a.nodes; j++ {
		if !a.alive[j] {
			continue
		}
		m := DataMap(a.insts[j].DB.VerifDump(), false)
		v, ok := m[db+"/"+k]
		if !ok || strings.Contains(v, "old") {
			a.fail("acked-write-missing/after-expiry", fmt.Sprintf("op %d: %q was acknowledged by the leader after the deadline of %s had passed on every node (all at the same log position); after a drain node %s holds %s=%q; log since: %v",
				i, op.Args, k, nodeID(j), k, v, trimCmds(a.logCommands()[logBefore:])))
			return
		}
	}
}

func (a *c07Run) steps(n int) {
	for i := 0; i < n; i++ {
		if a.dice.Next(3) == 0 {
			a.c.PumpGossip()
			dup := int(a.p.K("dup"))
			if Avoiding(a.p, "C07/forward/duplicated") {
				dup = 0
			}
			a.c.DeliverOne(int(a.p.K("drop")), dup)
		}
		parked := a.s.ParkedTasks()
		if len(parked) == 0 || a.spinning(parked) {
			continue
		}
		t := parked[a.dice.Next(len(parked))]
		a.s.noteChoice(len(parked), t.Site)
		a.s.Release(t)
	}
}

// drain: no more faults; deliver all gossip, let every node catch up.
func (a *c07Run) drain() bool {
	for round := 0; round < 400; round++ {
		moved := a.c.PumpGossip()
		for a.c.DeliverOne(0, 0) {
		}
		parked := a.s.ParkedTasks()
		if a.spinning(parked) {
			return false
		}
		if len(parked) == 0 && moved == 0 && len(a.c.inflight) == 0 {
			return true
		}
		for _, t := range parked {
			a.s.Release(t)
		}
	}
	return false
}

func (a *c07Run) leaderIdx() int {
	for i := 0; i < a.nodes; i++ {
		if a.alive[i] && nodeID(i) == a.c.leader {
			return i
		}
	}
	return -1
}

func (a *c07Run) logCommands() [][]string {
	var out [][]string
	for _, e := range a.c.log {
		var req struct {
			Type     string
			CMD      []string
			Database int
			Key      string
		}
		_ = json.Unmarshal(e.data, &req)
		if req.Type == "delete-key" {
			out = append(out, []string{"<delete-key>", req.Key, strconv.Itoa(req.Database)})
		} else {
			out = append(out, append(append([]string{}, req.CMD...), "@db"+strconv.Itoa(req.Database)))
		}
	}
	return out
}

func runC07(t *testing.T, p *Plan) *Outcome {
	o := &Outcome{Trivial: true}
	a := &c07Run{p: p, o: o}
	br := RunBubble(t, func() {
		s := NewSim()
		s.logOn = true
		a.s = s
		s.install()
		defer s.uninstall()
		a.dice = p.NewDice()
		a.c = s.NewCluster(a.dice)
		// only the replication layer's tasks are scheduling choices; commands themselves run through
		s.siteFilter = func(site string) bool {
			if p.Profile == "expiry" && (site == "lock.store" || site == "rlock.store") {
				return true // collection of expired keys and the writes that follow meet at the store lock
			}
			return strings.HasPrefix(site, "raft.") || strings.HasPrefix(site, "start:")
		}
		if Avoiding(p, "C07/forward/gossip-storm") {
			a.c.Dedupe = true
		}
		hasSnap, hasRestart := false, false
		for _, op := range p.Ops {
			hasSnap = hasSnap || op.Kind == "snapshot"
			hasRestart = hasRestart || op.Kind == "restart" || op.Kind == "crash"
		}
		a.snapRestart = hasSnap && hasRestart
		a.nodes = int(p.K("nodes"))
		a.insts = make([]*Instance, a.nodes)
		a.clients = make([]*Client, a.nodes)
		a.alive = make([]bool, a.nodes)
		for i := 0; i < a.nodes; i++ {
			if !a.bootNode(i) {
				return
			}
		}
		a.body()
		o.Stats = s.Stats
		o.Sched = s.schedHash
		o.Log = s.Log
	})
	if br.panicVal != nil && o.Sig == "" {
		o.Sig = "C07/panic/" + topRepoFrame(br.stack)
		o.Detail = fmt.Sprintf("%v\n%s", br.panicVal, br.stack)
	}
	o.Class = strings.Join(a.names, ",")
	o.Sample = map[string]any{"ops": a.names, "faults": a.faults, "committed": len(a.cLog())}
	return o
}

func (a *c07Run) cLog() []centry {
	if a.c == nil {
		return nil
	}
	return a.c.log
}

func (a *c07Run) checkPanics() {
	for _, id := range a.c.ids {
		if n := a.c.nodes[id]; n.Panic != "" {
			a.fail("fsm-panic/"+topRepoFrame(n.Panic), fmt.Sprintf("node %s: %s", id, n.Panic))
		}
	}
	for i, cl := range a.clients {
		if cl != nil && cl.SrvPanic != "" {
			a.fail("panic/"+topRepoFrame(cl.SrvPanic), fmt.Sprintf("node %s connection: %s", nodeID(i), cl.SrvPanic))
		}
	}
}

func (a *c07Run) body() {
	p := a.p
	for i := 0; i < len(p.Ops) && a.o.Sig == ""; i++ {
		op := p.Ops[i]
		switch op.Kind {
		case "", "setget":
			a.command(i, op)
		case "elect":
			tgt := int(op.N) % a.nodes
			if !a.alive[tgt] {
				break
			}
			a.names = append(a.names, "elect:"+nodeID(tgt)+op.S)
			a.faults = append(a.faults, "elect"+op.S)
			a.s.Stats.FaultsFired["leadership-transfer"+op.S]++
			a.c.Elect(nodeID(tgt), op.S == "stale")
		case "crash":
			tgt := int(op.N) % a.nodes
			live := 0
			for _, x := range a.alive {
				if x {
					live++
				}
			}
			if !a.alive[tgt] || live <= 2 {
				break
			}
			a.names = append(a.names, "crash:"+nodeID(tgt))
			a.faults = append(a.faults, "crash")
			a.s.Stats.FaultsFired["node-crash"]++
			wasLeader := a.c.leader == nodeID(tgt)
			a.c.Stop(nodeID(tgt))
			a.s.KillInstance(a.insts[tgt].ID)
			a.alive[tgt] = false
			if wasLeader {
				// election: the most up-to-date live node wins (as raft guarantees for committed entries)
				best := -1
				for j := 0; j < a.nodes; j++ {
					if a.alive[j] && (best < 0 || a.c.nodes[nodeID(j)].applied > a.c.nodes[nodeID(best)].applied) {
						best = j
					}
				}
				a.c.Elect(nodeID(best), false)
			}
		case "restart":
			tgt := int(op.N) % a.nodes
			if a.alive[tgt] {
				break
			}
			a.names = append(a.names, "restart:"+nodeID(tgt))
			a.s.Stats.FaultsFired["node-restart"]++
			a.bootNode(tgt)
		case "snapshot":
			tgt := int(op.N) % a.nodes
			if !a.alive[tgt] {
				break
			}
			a.names = append(a.names, "snapshot:"+nodeID(tgt))
			_ = a.c.nodes[nodeID(tgt)].Snapshot()
			a.s.Settle()
			if Avoiding(a.p, "C07/livelock/spin:getState.wait") {
				// open finding: a snapshot that starts while a write is in flight on that node never ends.
				// Let the snapshot's state copy finish before the next command is issued.
				for k := 0; k < 200 && a.c.nodes[nodeID(tgt)].snapReq > 0; k++ {
					for _, t := range a.s.ParkedTasks() {
						if strings.HasSuffix(t.Site, ":"+nodeID(tgt)) || strings.HasPrefix(t.Site, "start:apply:"+nodeID(tgt)) {
							a.s.Release(t)
						}
					}
				}
			}
		case "advance":
			a.names = append(a.names, "adv")
			if len(a.c.log) > 0 {
				a.adv = true
			}
			a.s.Advance(time.Duration(op.N) * time.Millisecond)
		case "steps":
			a.steps(int(op.N))
		case "drain":
			if !a.drain() && a.o.Sig == "" {
				a.fail("liveness/no-quiescence", "replication does not quiesce")
			}
		case "expiring":
			// an absolute deadline N ms from now, kept as it is (exploration otherwise moves deadlines out of reach)
			l := a.leaderIdx()
			if l < 0 || len(op.Args) != 3 {
				break
			}
			args := append(append([]string{}, op.Args...), "PXAT", strconv.FormatInt(nowMs()+op.N, 10))
			a.names = append(a.names, "SET-PXAT@L")
			if res, done := a.run(a.clients[l], args, 1500); !done || res.IsError() {
				a.fail("command-hangs/leader", fmt.Sprintf("op %d %q on the leader: done=%v reply=%s", i, args, done, res))
			}
		case "expired-rewrite":
			a.expiredRewrite(i, op)
		}
		a.checkPanics()
		a.noteExpired()
		if os.Getenv("DSIM_DEBUG_C07MEM") != "" {
			fmt.Printf("after op %d %v:", i, op)
			for j := 0; j < a.nodes; j++ {
				if a.alive[j] {
					st := a.insts[j].DB.VerifDump()
					n := 0
					for _, d := range st.DBs {
						n += len(d)
					}
					fmt.Printf(" %s(applied %d, mem %d, keys %d)", nodeID(j), a.c.nodes[nodeID(j)].applied, st.MemUsed, n)
				}
			}
			fmt.Println()
		}
	}
	if a.o.Sig != "" {
		return
	}
	// ---- faults stop here
	a.c.ClearStale()
	if a.leaderIdx() < 0 {
		for j := 0; j < a.nodes; j++ {
			if a.alive[j] {
				a.c.Elect(nodeID(j), false)
				break
			}
		}
	}
	for j := 0; j < a.nodes; j++ {
		if !a.alive[j] {
			a.bootNode(j)
		}
	}
	if os.Getenv("DSIM_DEBUG_C07MEM") != "" {
		a.drain()
		for j := 0; j < a.nodes; j++ {
			st := a.insts[j].DB.VerifDump()
			fmt.Printf("before final %s applied %d mem %d probes %v: %v\n", nodeID(j), a.c.nodes[nodeID(j)].applied, st.MemUsed, a.s.Stats.Probes, DataMap(st, false))
			for db, d := range st.DBs {
				for k, e := range d {
					fmt.Printf("    %d/%s mem=%d\n", db, k, e.Mem)
				}
			}
		}
	}
	// bounded liveness: a new write on the leader is acknowledged and reaches every node
	l := a.leaderIdx()
	res, done := a.run(a.clients[l], []string{"SET", "final", "marker"}, 3000)
	refused := done && res.IsError() && a.p.K("maxmem") > 0 && strings.Contains(res.Err+res.Reply.Str, "max memory")
	if refused {
		// answered - with the refusal the memory limit prescribes; every node must have refused it alike (compared below)
	} else if !done || res.IsError() {
		a.fail("liveness/final-write", fmt.Sprintf("after the last fault a write on the leader %s was not acknowledged: done=%v reply=%s", nodeID(l), done, res))
		return
	}
	if !a.drain() {
		if a.o.Sig != "" {
			return
		}
		if a.p.K("forward") == 1 && a.c.Forwards > 0 {
			a.fail("forward/gossip-storm", fmt.Sprintf("forwarded commands are re-broadcast by every node that is not the leader and never die out: gossip still circulating after 400 fault-free rounds, %d entries committed so far (the leader applies every copy it hears)", len(a.c.log)))
			return
		}
		a.fail("liveness/no-quiescence", "replication does not quiesce after the last fault")
		return
	}
	a.checkPanics()
	if a.o.Sig != "" {
		return
	}
	a.converged("after-drain")
	if a.o.Sig != "" {
		return
	}
	// ---- FSM determinism: the committed log replayed on a fresh node (other clock, other random stream)
	a.s.Advance(time.Duration(3+a.dice.Next(5000)) * time.Millisecond)
	rand.Seed(int64(a.dice.Next(1 << 30)))
	a.gen++
	cfg := BaseConfig
	cfg.ServerID = "replay"
	cfg.MaxMemory = uint64(a.p.K("maxmem"))
	cfg.JoinAddr = "sim:n1"
	a.c.booting = a.gen
	inst, err := a.s.Boot(a.gen, cfg)
	if err != nil {
		a.fail("boot-failed", fmt.Sprint(err))
		return
	}
	a.c.StartNode("replay")
	if !a.drain() {
		a.fail("liveness/no-quiescence", "the replaying node does not catch up")
		return
	}
	a.checkPanics()
	ref := DataMap(a.insts[a.leaderIdx()].DB.VerifDump(), false)
	got := DataMap(inst.DB.VerifDump(), false)
	if !mapsEqual(ref, got) && a.o.Sig == "" {
		a.fail(a.divergeClass("replay-differs", got, ref), fmt.Sprintf("replaying the committed log (%d entries) on a fresh node gives a different dataset: %s; log: %v", len(a.c.log), DiffData(got, ref, "replayed", "cluster", 4), trimCmds(a.logCommands())))
	}
	if len(a.c.log) >= 2 {
		a.o.Trivial = false
	}
}

func trimCmds(c [][]string) string {
	s := fmt.Sprint(c)
	return trunc(s, 600)
}

// divergeClass attributes a divergence to a recorded root cause only if EVERY differing key is explained by it:
// deadline-only differences after a relative expiration, keys whose deadline has passed on the clock,
// keys that were the target of a random-by-design command. Anything else keeps the plain signature.
func (a *c07Run) divergeClass(base string, x, y map[string]string) string {
	now := time.Now().UnixMilli()
	body := func(v string) (string, int64) {
		if i := strings.LastIndex(v, " @"); i >= 0 {
			ms, _ := strconv.ParseInt(v[i+2:], 10, 64)
			return v[:i], ms
		}
		return v, 0
	}
	keys := map[string]bool{}
	for k := range x {
		keys[k] = true
	}
	for k := range y {
		keys[k] = true
	}
	allRel, allExpired, allRand, n := true, true, true, 0
	for k := range keys {
		if x[k] == y[k] {
			continue
		}
		n++
		bx, dx := body(x[k])
		by, dy := body(y[k])
		if !(x[k] != "" && y[k] != "" && bx == by && dx != 0 && dy != 0) {
			allRel = false
		}
		if !((dx != 0 && dx <= now) || (dy != 0 && dy <= now) || a.expiredKeys[k]) {
			allExpired = false
		}
		if !a.randKeys[k[strings.IndexByte(k, '/')+1:]] {
			allRand = false
		}
	}
	switch {
	case n == 0:
		return base
	case allRand && a.sawRand:
		return base + "/random-command"
	case allRel && a.sawRel:
		return base + "/relative-expiry"
	case allExpired && (a.sawAbs || a.sawRel):
		return base + "/expired-at-apply-time"
	}
	return base
}

func (a *c07Run) converged(when string) {
	var ref map[string]string
	refName := ""
	for j := 0; j < a.nodes; j++ {
		if !a.alive[j] {
			continue
		}
		m := DataMap(a.insts[j].DB.VerifDump(), false)
		if ref == nil {
			ref, refName = m, nodeID(j)
			continue
		}
		if !mapsEqual(ref, m) {
			if a.s.Stats.Probes["restore-from-snapshot"] > 0 && projEqual(ref, m) {
				a.fail("snapshot-retyped", fmt.Sprintf("%s: %s and %s differ only by the type loss of the JSON raft snapshot one of them was restored from: %s", when, refName, nodeID(j), DiffData(ref, m, refName, nodeID(j), 4)))
				return
			}
			a.fail(a.divergeClass("replicas-diverge", ref, m), fmt.Sprintf("%s: %s and %s hold different datasets although both applied the whole log (%d entries): %s; log: %v",
				when, refName, nodeID(j), len(a.c.log), DiffData(ref, m, refName, nodeID(j), 4), trimCmds(a.logCommands())))
			return
		}
	}
}

func (a *c07Run) command(i int, op Op) {
	tgt := op.C % a.nodes
	l := a.leaderIdx()
	if op.S == "leader-relative" && op.C == 0 && l >= 0 {
		tgt = l
	}
	if op.Kind == "setget" {
		if l < 0 {
			return
		}
		tgt = l
	}
	if !a.alive[tgt] {
		return
	}
	name := strings.ToUpper(op.Args[0])
	if sp := specByName[name]; sp != nil {
		if sp.Random && (Avoiding(a.p, "C07/replicas-diverge/random-command") || Avoiding(a.p, "C07/replay-differs/random-command")) {
			a.o.Skipped++
			return
		}
	}
	if a.snapRestart && Avoiding(a.p, "C07/snapshot-retyped") && lossyCommand(op.Args) {
		a.o.Skipped++
		return
	}
	rel := isRelativeExpiry(op.Args)
	if rel && (Avoiding(a.p, "C07/replicas-diverge/relative-expiry") || Avoiding(a.p, "C07/replay-differs/relative-expiry")) {
		a.o.Skipped++
		return
	}
	if setsAbsoluteDeadline(op.Args) && (Avoiding(a.p, "C07/replicas-diverge/expired-at-apply-time") || Avoiding(a.p, "C07/replay-differs/expired-at-apply-time")) {
		// keep the command, move the deadline out of reach of the plan's clock advances
		op.Args = farFuture(op.Args)
	}
	if rel {
		a.sawRel = true
	}
	if sp := specByName[name]; sp != nil && sp.Random {
		a.sawRand = true
		if a.randKeys == nil {
			a.randKeys = map[string]bool{}
		}
		if len(op.Args) > 1 {
			a.randKeys[op.Args[1]] = true
		}
	}
	if setsAbsoluteDeadline(op.Args) {
		a.sawAbs = true
	}
	isLeader := nodeID(tgt) == a.c.leader && !a.c.nodes[nodeID(tgt)].stale
	a.names = append(a.names, name+"@"+ifs(isLeader, "L", "F"))
	before := DataMap(a.insts[tgt].DB.VerifDump(), false)
	logBefore := len(a.c.log)
	res, done := a.run(a.clients[tgt], op.Args, 1500)
	if !done {
		a.fail("command-hangs/"+ifs(isLeader, "leader", "follower"), fmt.Sprintf("op %d %q on %s was never answered", i, op.Args, nodeID(tgt)))
		return
	}
	if len(a.c.log) > logBefore {
		if rel {
			a.sawRel = true
		}
		if setsAbsoluteDeadline(op.Args) {
			a.sawAbs = true
		}
		if sp := specByName[name]; sp != nil && sp.Random {
			a.sawRand = true
		}
	}
	db := a.p.K("db" + strconv.Itoa(tgt))
	if isLeader {
		if !res.IsError() && len(a.c.log) > logBefore {
			// the entry of this command must carry the client's database
			// (an identical command forwarded earlier by a client on another database may be committed during
			// this step as well, so the alarm is raised only if NO entry with these arguments carries this database)
			var same, right [][]string
			for _, c := range a.logCommands()[logBefore:] {
				if len(c) == len(op.Args)+1 && equalFoldStrings(c[:len(c)-1], op.Args) {
					same = append(same, c)
					if c[len(c)-1] == "@db"+strconv.FormatInt(db, 10) {
						right = append(right, c)
					}
				}
			}
			if len(same) > 0 && len(right) == 0 {
				a.fail("wrong-db/leader", fmt.Sprintf("op %d %q issued with database %d selected was committed as %v", i, op.Args, db, same))
			}
		}
		if op.Kind == "setget" && !res.IsError() {
			// a read on the leader after the acknowledgement observes the write
			g, ok := a.run(a.clients[tgt], []string{"GET", op.Args[1]}, 1500)
			if !ok || g.IsError() || g.Reply.Text() != op.Args[2] {
				a.fail("acked-write-missing/leader-read", fmt.Sprintf("op %d: SET %s %s was acknowledged by the leader, the following GET on the leader returned %s", i, op.Args[1], op.Args[2], g))
			}
		}
		return
	}
	// ---- not the leader
	after := DataMap(a.insts[tgt].DB.VerifDump(), false)
	_ = before
	if a.p.K("forward") == 0 || a.c.nodes[nodeID(tgt)].stale {
		if !res.IsError() {
			a.fail("follower-accepted-write", fmt.Sprintf("op %d %q on follower %s (forwarding off) was answered %s instead of being rejected", i, op.Args, nodeID(tgt), res))
			return
		}
		if len(a.c.log) != logBefore {
			a.fail("follower-proposed", fmt.Sprintf("op %d %q on follower %s was rejected but an entry was committed", i, op.Args, nodeID(tgt)))
		}
		return
	}
	// forwarding on: handed to the leader; the follower itself must not have applied it locally
	a.c.Forwards++
	if res.IsError() {
		return // a rejection is always acceptable
	}
	_ = after
	if sp := specByName[name]; sp != nil && len(op.Args) >= 3 && name == "SET" && strings.HasPrefix(op.Args[2], "u") && len(op.Args) == 3 {
		// after a drain the forwarded write must be in the log exactly once, with the client's database
		if !a.drain() {
			if a.o.Sig == "" {
				a.fail("forward/gossip-storm", fmt.Sprintf("forwarded commands are re-broadcast by every node that is not the leader and never die out: %d gossip messages still in flight after 400 rounds", len(a.c.inflight)))
				return
			}
			a.fail("liveness/no-quiescence", "replication does not quiesce")
			return
		}
		count := 0
		wrongDB := ""
		for _, c := range a.logCommands() {
			if len(c) >= 4 && strings.EqualFold(c[0], "SET") && c[1] == op.Args[1] && c[2] == op.Args[2] {
				count++
				if c[len(c)-1] != "@db"+strconv.FormatInt(db, 10) {
					wrongDB = c[len(c)-1]
				}
			}
		}
		lost := a.p.K("drop") > 0
		switch {
		case count == 0 && !lost:
			a.fail("forward/lost", fmt.Sprintf("op %d %q forwarded by %s was answered OK but never reached the log (no message loss injected)", i, op.Args, nodeID(tgt)))
		case count > 1:
			a.fail("forward/duplicated", fmt.Sprintf("op %d %q forwarded by %s was committed %d times", i, op.Args, nodeID(tgt), count))
		case wrongDB != "":
			a.fail("wrong-db/forward", fmt.Sprintf("op %d %q forwarded by %s with database %d selected was committed with %s", i, op.Args, nodeID(tgt), db, wrongDB))
		}
	}
}

func equalFoldStrings(a, b []string) bool {
	if len(a) != len(b) {
		return false
	}
	for i := range a {
		if a[i] != b[i] && !(i == 0 && strings.EqualFold(a[i], b[i])) {
			return false
		}
	}
	return true
}

func setsAbsoluteDeadline(args []string) bool {
	name := strings.ToUpper(args[0])
	if name == "EXPIREAT" || name == "PEXPIREAT" {
		return true
	}
	if name == "SET" || name == "GETEX" {
		for _, x := range args[2:] {
			if u := strings.ToUpper(x); u == "EXAT" || u == "PXAT" {
				return true
			}
		}
	}
	return false
}

func isRelativeExpiry(args []string) bool {
	name := strings.ToUpper(args[0])
	if name == "EXPIRE" || name == "PEXPIRE" {
		return true
	}
	if name == "SET" || name == "GETEX" {
		for _, x := range args[2:] {
			if u := strings.ToUpper(x); u == "EX" || u == "PX" {
				return true
			}
		}
	}
	return false
}

var _ = sort.Strings

// farFuture shifts the absolute deadline of a command by ten million seconds.
func farFuture(args []string) []string {
	out := append([]string{}, args...)
	name := strings.ToUpper(out[0])
	shift := func(i int, ms bool) {
		if i < len(out) {
			if v, err := strconv.ParseInt(out[i], 10, 64); err == nil {
				d := int64(10000000)
				if ms {
					d *= 1000
				}
				out[i] = strconv.FormatInt(v+d, 10)
			}
		}
	}
	switch name {
	case "EXPIREAT":
		shift(2, false)
	case "PEXPIREAT":
		shift(2, true)
	default:
		for i := 2; i < len(out); i++ {
			switch strings.ToUpper(out[i]) {
			case "EXAT":
				shift(i+1, false)
			case "PXAT":
				shift(i+1, true)
			}
		}
	}
	return out
}

// lossyCommand: does the command create a value the JSON snapshot encoding cannot represent?
func lossyCommand(args []string) bool {
	name := strings.ToUpper(args[0])
	if sp := specByName[name]; sp != nil && (sp.Family == "list" || sp.Family == "set" || sp.Family == "zset") {
		return true
	}
	switch name {
	case "HINCRBY", "HINCRBYFLOAT", "INCRBYFLOAT":
		return true
	case "SET", "MSET", "APPEND", "HSET", "HSETNX":
		for _, x := range args[2:] {
			if _, err := strconv.ParseFloat(strings.TrimSpace(x), 64); err == nil {
				return true
			}
		}
	}
	return false
}

// noteExpired remembers the keys that carry a deadline the clock has passed (on any live node).
func (a *c07Run) noteExpired() {
	now := time.Now().UnixMilli()
	for j := 0; j < a.nodes; j++ {
		if !a.alive[j] {
			continue
		}
		for db, data := range a.insts[j].DB.VerifDump().DBs {
			for k, e := range data {
				if e.ExpireAt != 0 && e.ExpireAt <= now {
					if a.expiredKeys == nil {
						a.expiredKeys = map[string]bool{}
					}
					a.expiredKeys[strconv.Itoa(db)+"/"+k] = true
				}
			}
		}
	}
}
