package dsim

// C20 — logical databases are isolated namespaces.

import (
	"fmt"
	"os"
	"path/filepath"
	"sort"
	"strconv"
	"strings"
	"testing"
	"time"
)

func init() {
	register(&PropDef{
		ID: "C20",
		Rule: "plan = histories of data commands of every family, SELECT, SWAPDB, FLUSHDB, FLUSHALL on 2-3 TCP connections plus the embedded caller over database indices {0,1,2,9,10,15,123}; half of the runs end with an AOF restart (clean or kill) and a per-database comparison; " +
			"non-trivial = at least two databases held data at some point; distinct = hash of the (command name, database) sequence",
		Gen:         genC20,
		Run:         runC20,
		Real:        []string{"connection table (SELECT/SWAPDB/handleCommand context)", "keyspace per-database maps, volatile index and heaps", "Flush", "AOF SELECT markers and restore", "embedded SelectDB"},
		Stub:        []string{"TCP sockets", "durability (kill = everything handed to the OS survives)"},
		Assumptions: []string{"SWAPDB is judged by what each client connection reads afterwards (the implementation may swap the connections' indices instead of the data)"},
	})
}

var c20DBs = []int{0, 1, 2, 9, 10, 15, 123}

func genC20(r *Rng, tier string, idx int) *Plan {
	p := &Plan{Profile: "mem", Knobs: map[string]int64{}, SKnobs: map[string]string{}}
	if idx%9 == 4 {
		return genC20Evict(r, tier, p)
	}
	if idx%3 == 0 {
		// connections in different databases issuing SELECT/SWAPDB/FLUSH*/data commands concurrently (dice-scheduled
		// at keyspace, store-lock and connection-table-lock granularity): replies and the per-database dataset
		// must be those of some serial order, i.e. no command reads or writes another connection's database
		return genConnConc(r, tier, p)
	}
	if idx%2 == 1 {
		p.Profile = "aof"
		if idx%8 == 7 {
			p.Profile = "snap" // SAVE before every restart, restore from the snapshot only
		}
		p.SKnobs["restart"] = Pick(r, []string{"clean", "kill"})
	}
	p.SKnobs["policy"] = Pick(r, []string{"noeviction", "allkeys-lfu", "volatile-lru"})
	nconn := r.Range(2, 3)
	p.Knobs["conns"] = int64(nconn)
	g := &GenCfg{Keys: []string{"k1", "k2", "k3"}, NowMs: 946684800000, NoRandom: true, NoClock: true}
	n := r.Range(6, 30)
	if tier == "thorough" {
		n = r.Range(6, 80)
	}
	for i := 0; i < n; i++ {
		c := r.Intn(nconn + 1) // nconn = embedded caller
		switch x := r.Intn(100); {
		case x < 5 && p.Profile != "mem":
			p.Ops = append(p.Ops, Op{Kind: "restart", S: Pick(r, []string{"clean", "kill"})})
		case x < 14:
			p.Ops = append(p.Ops, Op{Kind: "select", C: c, N: int64(Pick(r, c20DBs))})
		case x < 19:
			p.Ops = append(p.Ops, Op{Kind: "swapdb", C: c, Args: []string{"SWAPDB", strconv.Itoa(Pick(r, c20DBs)), strconv.Itoa(Pick(r, c20DBs))}})
		case x < 24:
			p.Ops = append(p.Ops, Op{C: c, Args: []string{Pick(r, []string{"FLUSHDB", "FLUSHDB", "FLUSHALL"})}})
		default:
			p.Ops = append(p.Ops, Op{C: c, Args: g.Cmd(r)})
		}
	}
	return p
}

func perDB(st map[int]map[string]string) map[int]string {
	out := map[int]string{}
	for db, m := range st {
		ks := sortedKeys(m)
		var sb strings.Builder
		for _, k := range ks {
			sb.WriteString(k + "=" + m[k] + ";")
		}
		out[db] = sb.String()
	}
	return out
}

func runC20(t *testing.T, p *Plan) *Outcome {
	if p.Profile == "conn" {
		return runConcCore(t, p, "C20")
	}
	if p.Profile == "evict" {
		return runC20Evict(t, p)
	}
	o := &Outcome{Trivial: true}
	var names []string
	root := filepath.Join(scratchDir(), fmt.Sprintf("r%d", runCounter.Add(1)))
	fail := func(sig, detail string) {
		if o.Sig == "" {
			o.Sig, o.Detail = "C20/"+sig, detail
		}
	}
	if p.Profile != "mem" {
		_ = os.MkdirAll(root, 0o755)
		defer os.RemoveAll(root)
	}
	var imgs []string
	defer func() {
		for _, d := range imgs {
			os.RemoveAll(d)
		}
	}()
	br := RunBubble(t, func() {
		s := NewSim()
		s.install()
		defer s.uninstall()
		cfg := BaseConfig
		cfg.EvictionPolicy = p.SK("policy")
		switch p.Profile {
		case "aof":
			cfg.DataDir = root
			cfg.RestoreAOF = true
			cfg.AOFSyncStrategy = "always"
		case "snap":
			cfg.DataDir = root
			cfg.RestoreSnapshot = true
		}
		inst, err := s.Boot(1, cfg)
		if err != nil {
			fail("boot-failed", fmt.Sprint(err))
			return
		}
		nconn := int(p.K("conns"))
		conns := make([]*Client, nconn+1)
		dbOf := make([]int, nconn+1)
		gen := 1
		connect := func() {
			for i := 0; i < nconn; i++ {
				conns[i] = s.NewTCPClient(inst, fmt.Sprintf("g%dc%d", gen, i))
				dbOf[i] = 0
			}
			conns[nconn] = s.NewEmbeddedClient(inst, fmt.Sprintf("g%demb", gen))
			dbOf[nconn] = 0
		}
		connect()
		// restart: persistence keeps every key in its database; all callers start again on database 0
		restart := func(kind string, at int) bool {
			if p.Profile == "snap" {
				// the clock must move so that the snapshot is newer than the previous one
				s.AdvanceSync(2 * time.Millisecond)
				if r := conns[0].DoSync("SAVE"); r.IsError() || r.Panic != "" {
					fail("db-lost-in-snapshot/save", fmt.Sprintf("SAVE before restart %d: %s", gen, r))
					return false
				}
			}
			want := StripExpired(inst.DB.VerifDump(), nowMs(), false)
			if kind == "clean" {
				inst.DB.ShutDown()
				s.Settle()
			}
			s.KillInstance(gen)
			img := fmt.Sprintf("%s.img%d", root, gen)
			copyTree(cfg.DataDir, img)
			imgs = append(imgs, img)
			cfg.DataDir = img
			gen++
			var err error
			inst, err = s.Boot(gen, cfg)
			if err != nil || inst.Panic != "" {
				fail("db-lost-in-"+p.Profile+"/boot", fmt.Sprintf("restart %d failed: %v %s", gen-1, err, inst.Panic))
				return false
			}
			got := StripExpired(inst.DB.VerifDump(), nowMs(), false)
			if p.Profile == "snap" {
				// the snapshot encoding loses or retypes some value kinds (C10's recorded finding); here only
				// the PLACEMENT is judged: no key shows up in a database that did not hold it, and scalar keys stay
				for k := range got {
					if _, ok := want[k]; !ok {
						fail("db-lost-in-snap/moved", fmt.Sprintf("restart %d: key %s exists after the snapshot restore but not before it; before: %v", gen-1, k, sortedKeys(want)))
						return false
					}
				}
				for k, v := range want {
					if _, ok := got[k]; !ok && (strings.HasPrefix(v, "string:") || strings.HasPrefix(v, "int:") || strings.HasPrefix(v, "float:")) {
						fail("db-lost-in-snap/missing", fmt.Sprintf("restart %d: key %s (%s) is missing after the snapshot restore; restored: %v", gen-1, k, v, sortedKeys(got)))
						return false
					}
				}
			} else if !mapsEqual(got, want) {
				fail("db-lost-in-"+p.Profile+"/"+kind, fmt.Sprintf("restart %d (%s, before op %d) the per-database datasets differ: %s", gen-1, kind, at, DiffData(got, want, "restored", "before", 5)))
				return false
			}
			connect()
			return true
		}
		// full white-box view: dataset + bookkeeping per database
		view := func() map[int]string {
			st := inst.DB.VerifDump()
			flat := map[int]map[string]string{}
			for db, data := range st.DBs {
				flat[db] = map[string]string{}
				for k, e := range data {
					flat[db][k] = RenderEntry(e, false)
				}
			}
			out := perDB(flat)
			for db := range out {
				vol := append([]string{}, st.Volatile[db]...)
				sort.Strings(vol)
				lru := append([]string{}, st.LRU[db]...)
				sort.Strings(lru)
				lfu := append([]string{}, st.LFU[db]...)
				sort.Strings(lfu)
				out[db] += fmt.Sprintf("|vol=%v|lru=%v|lfu=%v", vol, lru, lfu)
			}
			return out
		}
		nonEmpty := func(v map[int]string) int {
			n := 0
			for _, s := range v {
				if !strings.HasPrefix(s, "|") {
					n++
				}
			}
			return n
		}
		for i, op := range p.Ops {
			if o.Sig != "" {
				break
			}
			c := op.C % (nconn + 1)
			switch op.Kind {
			case "restart":
				if p.Profile == "mem" {
					continue
				}
				names = append(names, "RESTART")
				restart(op.S, i)
			case "select":
				names = append(names, fmt.Sprintf("SELECT%d", op.N))
				before := view()
				others := append([]int{}, dbOf...)
				if c == nconn {
					if err := inst.DB.SelectDB(int(op.N)); err != nil {
						fail("select/embedded-error", err.Error())
						break
					}
				} else if r := conns[c].DoSync("SELECT", strconv.FormatInt(op.N, 10)); r.IsError() || r.Panic != "" {
					fail("select/error", fmt.Sprintf("op %d SELECT %d on connection %d: %s", i, op.N, c, r))
					break
				}
				dbOf[c] = int(op.N)
				after := view()
				for db, v := range before {
					if after[db] != v {
						fail("select-changed-data", fmt.Sprintf("op %d SELECT %d changed database %d", i, op.N, db))
					}
				}
				_ = others
			case "swapdb":
				a, _ := strconv.Atoi(op.Args[1])
				b, _ := strconv.Atoi(op.Args[2])
				names = append(names, fmt.Sprintf("SWAPDB%d,%d", a, b))
				r := conns[c].DoSync(op.Args...)
				if r.Panic != "" {
					fail("panic/SWAPDB", r.Panic)
					break
				}
				if r.IsError() {
					break
				}
				// every CLIENT connection on a now sees b and vice versa (the embedded caller is not a client connection)
				for j := 0; j < nconn; j++ {
					switch dbOf[j] {
					case a:
						dbOf[j] = b
					case b:
						dbOf[j] = a
					}
				}
			default:
				name := strings.ToUpper(op.Args[0])
				names = append(names, name+"@"+strconv.Itoa(dbOf[c]))
				before := view()
				r := conns[c].DoSync(op.Args...)
				if r.Panic != "" {
					fail("panic/"+name, r.Panic)
					break
				}
				after := view()
				if nonEmpty(after) >= 2 {
					o.Trivial = false
				}
				all := map[int]bool{}
				for db := range before {
					all[db] = true
				}
				for db := range after {
					all[db] = true
				}
				for db := range all {
					if before[db] == after[db] || (before[db] == "" && strings.HasPrefix(after[db], "|vol=[]|lru=[]|lfu=[]")) {
						continue
					}
					switch {
					case name == "FLUSHALL":
						if !strings.HasPrefix(after[db], "|") {
							fail("flush-scope/FLUSHALL", fmt.Sprintf("op %d FLUSHALL left data in database %d: %s", i, db, trunc(after[db], 200)))
						}
					case db != dbOf[c]:
						fail("cross-db-write/"+opClass(name), fmt.Sprintf("op %d %q issued by connection %d with database %d selected changed database %d: %s -> %s", i, op.Args, c, dbOf[c], db, trunc(before[db], 160), trunc(after[db], 160)))
					}
				}
				if name == "FLUSHDB" && !r.IsError() && !strings.HasPrefix(after[dbOf[c]], "|") && after[dbOf[c]] != "" {
					fail("flush-scope/FLUSHDB", fmt.Sprintf("op %d FLUSHDB on database %d left %s", i, dbOf[c], trunc(after[dbOf[c]], 200)))
				}
				if name == "FLUSHALL" && !r.IsError() {
					for db, v := range after {
						if !strings.HasPrefix(v, "|") && v != "" {
							fail("flush-scope/FLUSHALL", fmt.Sprintf("op %d FLUSHALL left data in database %d: %s", i, db, trunc(v, 200)))
						}
					}
				}
			}
		}
		// every connection still reads its own database: write a marker through each and look where it lands
		if o.Sig == "" {
			for c := 0; c <= nconn && o.Sig == ""; c++ {
				before := view()
				key := fmt.Sprintf("marker%d", c)
				conns[c].DoSync("SET", key, "m")
				after := view()
				landed := -1
				for db := range after {
					if after[db] != before[db] && strings.Contains(after[db], key+"=") {
						landed = db
					}
				}
				if landed != dbOf[c] {
					what := "select-leak"
					if c == nconn {
						what = "select-leak/embedded"
					}
					fail(what, fmt.Sprintf("connection %d should be on database %d (after the SELECT/SWAPDB history %v) but its write landed in database %d", c, dbOf[c], names, landed))
				}
			}
		}
		// persistence keeps every key in its database
		if o.Sig == "" && p.Profile != "mem" {
			restart(p.SK("restart"), len(p.Ops))
		}
		o.Stats = s.Stats
	})
	if br.panicVal != nil && o.Sig == "" {
		o.Sig = "C20/panic/" + topRepoFrame(br.stack)
		o.Detail = fmt.Sprintf("%v\n%s", br.panicVal, br.stack)
	}
	o.Class = p.Profile + "|" + strings.Join(names, ",")
	o.Sample = map[string]any{"history": names}
	return o
}
