package dsim

// Canonical renderings of the white-box state dump.

import (
	"fmt"
	"hash/fnv"
	"sort"
	"strconv"
	"strings"

	"github.com/echovault/sugardb/sugardb"
)

// RenderEntry renders one key canonically. Scalars are rendered by their text only
// when textOnly is set (int 7 and string "7" are then the same thing — what a client can see).
func RenderEntry(e sugardb.VerifEntry, textOnly bool) string {
	var sb strings.Builder
	switch e.Kind {
	case "string", "int", "float":
		if textOnly {
			sb.WriteString("str:" + strconv.Quote(e.Str))
		} else {
			sb.WriteString(e.Kind + ":" + strconv.Quote(e.Str))
		}
	case "list":
		sb.WriteString("list:[")
		for i, x := range e.List {
			if i > 0 {
				sb.WriteByte(' ')
			}
			sb.WriteString(strconv.Quote(x))
		}
		sb.WriteByte(']')
	case "hash":
		sb.WriteString("hash:{")
		fs := sortedKeys(e.Hash)
		for i, f := range fs {
			if i > 0 {
				sb.WriteByte(' ')
			}
			v := e.Hash[f]
			if textOnly && len(v) >= 2 {
				v = v[2:]
			}
			sb.WriteString(strconv.Quote(f) + "=" + strconv.Quote(v))
		}
		sb.WriteByte('}')
	case "set":
		sb.WriteString("set:{")
		for i, x := range e.Set {
			if i > 0 {
				sb.WriteByte(' ')
			}
			sb.WriteString(strconv.Quote(x))
		}
		sb.WriteByte('}')
	case "zset":
		sb.WriteString("zset:{")
		ms := sortedKeys(e.ZSet)
		for i, m := range ms {
			if i > 0 {
				sb.WriteByte(' ')
			}
			sb.WriteString(strconv.Quote(m) + "=" + strconv.FormatFloat(e.ZSet[m], 'g', -1, 64))
		}
		sb.WriteByte('}')
	default:
		sb.WriteString(e.Kind + ":" + strconv.Quote(e.Str))
	}
	if e.ExpireAt != 0 {
		sb.WriteString(" @" + strconv.FormatInt(e.ExpireAt, 10))
	}
	return sb.String()
}

// DataMap flattens the dataset to "db/key" -> rendering. Empty databases vanish.
func DataMap(st sugardb.VerifState, textOnly bool) map[string]string {
	m := map[string]string{}
	for db, data := range st.DBs {
		for k, e := range data {
			m[strconv.Itoa(db)+"/"+k] = RenderEntry(e, textOnly)
		}
	}
	return m
}

// DataString renders the whole dataset as one canonical string.
func DataString(st sugardb.VerifState, textOnly bool) string {
	m := DataMap(st, textOnly)
	ks := sortedKeys(m)
	var sb strings.Builder
	for _, k := range ks {
		sb.WriteString(k + " => " + m[k] + "\n")
	}
	return sb.String()
}

func hashString(s string) uint64 {
	h := fnv.New64a()
	h.Write([]byte(s))
	return h.Sum64()
}

// DiffData describes the differences between two flattened datasets (at most n lines).
func DiffData(a, b map[string]string, an, bn string, n int) string {
	var lines []string
	keys := map[string]bool{}
	for k := range a {
		keys[k] = true
	}
	for k := range b {
		keys[k] = true
	}
	ks := make([]string, 0, len(keys))
	for k := range keys {
		ks = append(ks, k)
	}
	sort.Strings(ks)
	for _, k := range ks {
		if a[k] != b[k] {
			av, bv := a[k], b[k]
			if av == "" {
				av = "<absent>"
			}
			if bv == "" {
				bv = "<absent>"
			}
			lines = append(lines, fmt.Sprintf("%s: %s=%s %s=%s", k, an, trunc(av, 120), bn, trunc(bv, 120)))
			if len(lines) >= n {
				break
			}
		}
	}
	return strings.Join(lines, "; ")
}

// StripExpired removes from a flattened dataset the keys whose deadline is <= nowMs.
func StripExpired(st sugardb.VerifState, nowMs int64, textOnly bool) map[string]string {
	m := map[string]string{}
	for db, data := range st.DBs {
		for k, e := range data {
			if e.Expired || (e.ExpireAt != 0 && e.ExpireAt <= nowMs) {
				continue
			}
			m[strconv.Itoa(db)+"/"+k] = RenderEntry(e, textOnly)
		}
	}
	return m
}

func mapsEqual(a, b map[string]string) bool {
	if len(a) != len(b) {
		return false
	}
	for k, v := range a {
		if b[k] != v {
			return false
		}
	}
	return true
}

// DataString2 renders a flattened dataset canonically (sorted keys).
func DataString2(m map[string]string) string {
	var b strings.Builder
	for _, k := range sortedKeys(m) {
		b.WriteString(k)
		b.WriteByte('=')
		b.WriteString(m[k])
		b.WriteByte('\n')
	}
	return b.String()
}
