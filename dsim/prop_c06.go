package dsim

// C06 — ACL authorization: no command runs outside the user's rules.
//
// A declarative evaluator of the documented rules (docs/acl.md): all categories of the command,
// the command itself, every key it reads under the read patterns, every key it writes under the
// write patterns, every channel it names. Key roles come from the harness's own table, not from the
// handlers' KeyExtractionFunc; where a role is debatable the model abstains.

import (
	"fmt"
	"os"
	"path"
	"path/filepath"
	"strings"
	"testing"
)

func init() {
	register(&PropDef{
		ID: "C06",
		Rule: "plan = a user table drawn per run (enabled/disabled, categories include/exclude, commands include/exclude, read/write key globs, nokeys, channel globs) created by ACL SETUSER on an admin connection + restricted connections that authenticate (or not) and issue data and pub/sub commands with argument vectors mixing permitted and forbidden keys/channels in every position + rule edits (new users, DELUSER, off) between commands; " +
			"non-trivial = at least one command was judged allowed and one denied; distinct = hash of (rule classes, command/arity/decision sequence)",
		Gen:  genC06,
		Run:  runC06,
		Real: []string{"acl.AuthorizeConnection / AuthenticateConnection", "ACL SETUSER / DELUSER parsing (user.go)", "handleCommand ACL gate", "command table categories and KeyExtractionFuncs", "all command handlers"},
		Stub: []string{"TCP sockets"},
		Assumptions: []string{
			"rule vocabulary restricted to the spellings whose meaning the documentation states: on/off, >password, +@cat/-@cat/allCategories, +cmd/-cmd/allCommands, %R~/%W~/%RW~ globs, allKeys, nokeys, +&/-& globs, allChannels",
			"for commands that both read and write a key the model requires both permissions to expect 'allowed' and neither to expect 'denied' and abstains otherwise",
			"an authorization denial is recognised by its error text (authoris/authoriz/authenticated)",
		},
	})
}

type c06User struct {
	name               string
	enabled            bool
	password           string
	inclCats, exclCats []string // inclCats nil = all
	inclCmds, exclCmds []string // inclCmds nil = all
	readGlobs          []string
	writeGlobs         []string
	noKeys             bool
	inclCh, exclCh     []string // inclCh nil = all
}

var c06Cats = []string{"read", "write", "fast", "slow", "keyspace", "string", "hash", "list", "set", "sortedset", "pubsub", "connection", "dangerous"}

func genC06(r *Rng, tier string, idx int) *Plan {
	p := &Plan{Profile: "acl", Knobs: map[string]int64{}, SKnobs: map[string]string{}}
	nusers := r.Range(1, 3)
	keys := []string{"ka1", "ka2", "kb1", "kb2"}
	g := &GenCfg{Keys: keys, NoRandom: true, NowMs: 946684800000}
	mkUser := func(i int) Op {
		a := []string{"ACL", "SETUSER", fmt.Sprintf("u%d", i), Pick(r, []string{"on", "on", "on", "off"}), ">pw" + fmt.Sprint(i)}
		switch r.Intn(4) {
		case 0:
			a = append(a, "allCategories")
		case 1:
			for _, c := range pickSome(r, c06Cats, 3, 8) {
				a = append(a, "+@"+c)
			}
		default:
			a = append(a, "allCategories")
			for _, c := range pickSome(r, c06Cats, 0, 2) {
				a = append(a, "-@"+c)
			}
		}
		switch r.Intn(4) {
		case 0:
			for _, c := range pickSome(r, []string{"get", "set", "mget", "mset", "del", "sadd", "sunionstore", "hset", "hget", "lpush", "lrange", "subscribe", "publish", "zadd", "zrange", "rename", "incr"}, 4, 12) {
				a = append(a, "+"+c)
			}
		case 1:
			a = append(a, "allCommands")
			for _, c := range pickSome(r, []string{"get", "set", "del", "mget", "sunionstore", "publish", "rename"}, 1, 2) {
				a = append(a, "-"+c)
			}
		default:
			a = append(a, "allCommands")
		}
		switch r.Intn(6) {
		case 0:
			a = append(a, "allKeys")
		case 1:
			a = append(a, "%RW~ka*")
		case 2:
			a = append(a, "%R~*", "%W~ka*")
		case 3:
			a = append(a, "%R~ka*", "%W~kb*")
		case 4:
			a = append(a, "%R~k?1", "%W~*")
		default:
			a = append(a, "nokeys")
		}
		switch r.Intn(4) {
		case 0:
			a = append(a, "allChannels")
		case 1:
			a = append(a, "+&news*")
		case 2:
			a = append(a, "allChannels", "-&ne*")
		default:
			a = append(a, "+&*", "-&alpha")
		}
		return Op{Kind: "setuser", Args: a}
	}
	made := map[int]Op{}
	for i := 0; i < nusers; i++ {
		made[i] = mkUser(i)
		p.Ops = append(p.Ops, made[i])
	}
	if idx%4 == 3 {
		// rule edits racing in-flight commands: every following (edit, command) pair runs concurrently,
		// interleaved by the dice at every store-lock acquisition and keyspace call
		p.Profile = "race"
		p.Dice = drawDice(r, 256)
	}
	nconn := r.Range(1, 3)
	p.Knobs["conns"] = int64(nconn)
	for c := 0; c < nconn; c++ {
		if r.Chance(0.85) {
			u := r.Intn(nusers)
			pw := fmt.Sprintf("pw%d", u)
			if r.Chance(0.1) {
				pw = "wrong"
			}
			p.Ops = append(p.Ops, Op{Kind: "auth", C: c, Args: []string{"AUTH", fmt.Sprintf("u%d", u), pw}})
		}
	}
	n := r.Range(6, 30)
	if tier == "thorough" {
		n = r.Range(6, 80)
	}
	next := nusers
	for i := 0; i < n; i++ {
		c := r.Intn(nconn)
		switch x := r.Intn(100); {
		case x < 70:
			if r.Chance(0.08) {
				// commands whose keys play different roles (a source that is removed, a destination that is written):
				// with different read and write globs each key is judged by its own role
				var multi []*CmdSpec
				for _, n := range []string{"RENAME", "RENAMENX", "SMOVE", "LMOVE", "COPY", "SDIFFSTORE", "SINTERSTORE", "SUNIONSTORE", "ZUNIONSTORE", "ZINTERSTORE", "GETEX", "GETDEL"} {
					if sp := specByName[n]; sp != nil {
						multi = append(multi, sp)
					}
				}
				p.Ops = append(p.Ops, Op{C: c, Args: Pick(r, multi).Gen(r, g)})
				break
			}
			p.Ops = append(p.Ops, Op{C: c, Args: g.Cmd(r)})
		case x < 82:
			ch := pickSome(r, c18Channels, 1, 2)
			p.Ops = append(p.Ops, Op{C: c, Args: append([]string{Pick(r, []string{"SUBSCRIBE", "PUBLISH"})}, ch...)})
		case x < 88:
			if p.Profile == "race" {
				// edit an EXISTING user while one of its sessions has a command in flight
				// (only on/off: how other tokens combine with an existing user's rules is incremental and not modelled)
				e := Op{Kind: "toggle", Args: []string{"ACL", "SETUSER", fmt.Sprintf("u%d", r.Intn(next)), Pick(r, []string{"off", "off", "on"})}}
				if u, ok := made[r.Intn(next)]; ok && r.Chance(0.4) {
					// the user's own rule list applied again (an idempotent provisioning job): the rules before and after
					// are the same, so a command they deny stays denied at every instant of the update
					e = Op{Kind: "reprov", Args: u.Args}
					// ... and the racing command is one that list excludes, if it excludes any
					for _, t := range u.Args[3:] {
						if len(t) > 1 && t[0] == '-' && t[1] != '@' && t[1] != '&' {
							if sp := specByName[strings.ToUpper(t[1:])]; sp != nil && r.Chance(0.8) {
								p.Ops = append(p.Ops, e, Op{C: c, Args: sp.Gen(r, g)})
								e.Kind = "done"
								break
							}
						}
					}
					if e.Kind == "done" {
						break
					}
				}
				p.Ops = append(p.Ops, e, Op{C: c, Args: g.Cmd(r)})
				break
			}
			made[next] = mkUser(next)
			p.Ops = append(p.Ops, made[next])
			p.Ops = append(p.Ops, Op{Kind: "auth", C: c, Args: []string{"AUTH", fmt.Sprintf("u%d", next), fmt.Sprintf("pw%d", next)}})
			next++
		case x < 93:
			du := r.Intn(next)
			p.Ops = append(p.Ops, Op{Kind: "deluser", Args: []string{"ACL", "DELUSER", fmt.Sprintf("u%d", du)}})
			if p.Profile == "race" && r.Bool() {
				// a login as that very user on another connection races the deletion
				p.Ops = append(p.Ops, Op{Kind: "auth", C: c, Args: []string{"AUTH", fmt.Sprintf("u%d", du), fmt.Sprintf("pw%d", du)}})
			} else if p.Profile == "race" {
				p.Ops = append(p.Ops, Op{C: c, Args: g.Cmd(r)})
			}
		case x < 96 && p.Profile == "acl":
			// the user table is written to the configuration file, users are switched off or on, and the file is
			// loaded back in REPLACE mode: the rules of the file govern every session, old and new
			u := fmt.Sprintf("u%d", r.Intn(next))
			if r.Bool() {
				p.Ops = append(p.Ops, Op{Kind: "toggle", Args: []string{"ACL", "SETUSER", u, Pick(r, []string{"off", "on"})}})
			}
			p.Ops = append(p.Ops, Op{Kind: "aclsave"})
			p.Ops = append(p.Ops, Op{Kind: "toggle", Args: []string{"ACL", "SETUSER", u, Pick(r, []string{"off", "on"})}})
			if r.Chance(0.3) {
				p.Ops = append(p.Ops, Op{Kind: "auth", C: c, Args: []string{"AUTH", u, "pw" + u[1:]}})
			}
			p.Ops = append(p.Ops, Op{Kind: "aclload"})
			p.Ops = append(p.Ops, Op{C: c, Args: g.Cmd(r)})
		default:
			p.Ops = append(p.Ops, Op{Kind: "auth", C: c, Args: []string{"AUTH", fmt.Sprintf("u%d", r.Intn(next)), fmt.Sprintf("pw%d", r.Intn(next))}})
		}
	}
	return p
}

func parseC06User(args []string) *c06User {
	u := &c06User{name: args[2], enabled: true}
	allCats, allCmds, allCh := false, false, false
	for _, t := range args[3:] {
		switch {
		case t == "on":
			u.enabled = true
		case t == "off":
			u.enabled = false
		case strings.HasPrefix(t, ">"):
			u.password = t[1:]
		case t == "allCategories":
			allCats = true
		case strings.HasPrefix(t, "+@"):
			u.inclCats = append(u.inclCats, t[2:])
		case strings.HasPrefix(t, "-@"):
			u.exclCats = append(u.exclCats, t[2:])
		case t == "allCommands":
			allCmds = true
		case t == "allKeys":
			u.readGlobs, u.writeGlobs = append(u.readGlobs, "*"), append(u.writeGlobs, "*")
		case t == "nokeys":
			u.noKeys = true
		case strings.HasPrefix(t, "%RW~"):
			u.readGlobs, u.writeGlobs = append(u.readGlobs, t[4:]), append(u.writeGlobs, t[4:])
		case strings.HasPrefix(t, "%R~"):
			u.readGlobs = append(u.readGlobs, t[3:])
		case strings.HasPrefix(t, "%W~"):
			u.writeGlobs = append(u.writeGlobs, t[3:])
		case t == "allChannels":
			allCh = true
		case strings.HasPrefix(t, "+&"):
			u.inclCh = append(u.inclCh, t[2:])
		case strings.HasPrefix(t, "-&"):
			u.exclCh = append(u.exclCh, t[2:])
		case strings.HasPrefix(t, "+"):
			u.inclCmds = append(u.inclCmds, strings.ToLower(t[1:]))
		case strings.HasPrefix(t, "-"):
			u.exclCmds = append(u.exclCmds, strings.ToLower(t[1:]))
		}
	}
	if allCats {
		u.inclCats = nil
	}
	if allCmds {
		u.inclCmds = nil
	}
	if allCh {
		u.inclCh = append(u.inclCh, "*")
	}
	return u
}

func matchAny(globs []string, s string) bool {
	for _, g := range globs {
		if ok, err := path.Match(g, s); err == nil && ok {
			return true
		}
	}
	return false
}

// keyRoles: (read keys, write keys, ambiguous read+write keys, channels) of a generated command.
func keyRoles(args []string) (reads, writes, both, chans []string) {
	name := strings.ToUpper(args[0])
	ks := CmdKeys(args)
	switch name {
	case "SUBSCRIBE", "PUBLISH":
		if name == "PUBLISH" {
			return nil, nil, nil, args[1:2]
		}
		return nil, nil, nil, args[1:]
	case "SUNIONSTORE", "SINTERSTORE", "SDIFFSTORE", "ZUNIONSTORE", "ZINTERSTORE", "ZDIFFSTORE", "ZRANGESTORE":
		if len(ks) > 0 {
			return ks[1:], ks[:1], nil, nil
		}
	case "SMOVE", "LMOVE", "RENAME":
		return nil, nil, ks, nil
	case "MSET", "SET", "DEL", "FLUSHDB", "FLUSHALL":
		if name == "SET" {
			for _, a := range args[3:] {
				if strings.EqualFold(a, "GET") {
					return nil, nil, ks, nil
				}
			}
		}
		return nil, ks, nil, nil
	}
	sp := specByName[name]
	if sp != nil && !sp.Write {
		return ks, nil, nil, nil
	}
	if sp == nil {
		// a command the harness has no description of: its keys may be read, written or both ("maybe")
		return nil, nil, append([]string{"?"}, ks...), nil
	}
	// read-modify-write commands (INCR, APPEND, LPUSH, HSET, SADD, ZADD, EXPIRE, ...)
	return nil, nil, ks, nil
}

// decide: +1 allowed, -1 denied, 0 abstain
func (u *c06User) decide(args []string, cats []string) (int, string) {
	name := strings.ToLower(args[0])
	for _, c := range cats {
		if u.inclCats != nil && !contains(u.inclCats, c) {
			return -1, "category @" + c + " not included"
		}
		if contains(u.exclCats, c) {
			return -1, "category @" + c + " excluded"
		}
	}
	if u.inclCmds != nil && !contains(u.inclCmds, name) {
		return -1, "command not included"
	}
	if contains(u.exclCmds, name) {
		return -1, "command excluded"
	}
	reads, writes, both, chans := keyRoles(args)
	for _, ch := range chans {
		if !matchAny(u.inclCh, ch) && len(u.inclCh) > 0 {
			return -1, "channel " + ch + " not included"
		}
		if len(u.inclCh) == 0 {
			return 0, "no channel rule given"
		}
		if matchAny(u.exclCh, ch) {
			return -1, "channel " + ch + " excluded"
		}
	}
	if len(reads)+len(writes)+len(both) > 0 {
		if u.noKeys && len(u.readGlobs) == 0 && len(u.writeGlobs) == 0 {
			return -1, "nokeys"
		}
		if len(u.readGlobs) == 0 && len(u.writeGlobs) == 0 {
			return 0, "no key rule given"
		}
		abstain := false
		for _, k := range reads {
			if len(u.readGlobs) == 0 {
				abstain = true
			} else if !matchAny(u.readGlobs, k) {
				return -1, "read key " + k + " not permitted"
			}
		}
		for _, k := range writes {
			if len(u.writeGlobs) == 0 {
				abstain = true
			} else if !matchAny(u.writeGlobs, k) {
				return -1, "write key " + k + " not permitted"
			}
		}
		maybe := len(both) > 0 && both[0] == "?"
		if maybe {
			both = both[1:]
		}
		for _, k := range both {
			r, w := matchAny(u.readGlobs, k), matchAny(u.writeGlobs, k)
			if len(u.readGlobs) == 0 || len(u.writeGlobs) == 0 {
				abstain = true
			} else if maybe {
				if !r && !w {
					return -1, "key " + k + " neither readable nor writable"
				} else if r != w {
					abstain = true
				}
			} else if !w {
				// the command modifies this key (read-modify-write, or the source of a move/rename, which is removed):
				// "every key it writes under the write patterns" - whatever it also needs for reading it
				return -1, "key " + k + " is written by the command but not writable"
			} else if !r {
				abstain = true // writable but not readable: whether the read half needs the read pattern is not defined
			}
		}
		if abstain {
			return 0, "role-dependent"
		}
	}
	return 1, "all rules pass"
}

func contains(a []string, s string) bool {
	for _, x := range a {
		if x == s {
			return true
		}
	}
	return false
}

func isAuthDenial(r Result) bool {
	t := strings.ToLower(r.Err + " " + r.Reply.Str)
	return r.IsError() && (strings.Contains(t, "authoris") || strings.Contains(t, "authoriz") || strings.Contains(t, "must be authenticated"))
}

func runC06(t *testing.T, p *Plan) *Outcome {
	o := &Outcome{Trivial: true}
	var classes []string
	fail := func(sig, detail string) {
		if o.Sig == "" {
			o.Sig, o.Detail = "C06/"+sig, detail
		}
	}
	allowed, denied := 0, 0
	root := filepath.Join(scratchDir(), fmt.Sprintf("r%d", runCounter.Add(1)))
	_ = os.MkdirAll(root, 0o755)
	defer os.RemoveAll(root)
	br := RunBubble(t, func() {
		s := NewSim()
		s.logOn = p.Profile == "race"
		s.install()
		defer s.uninstall()
		if p.Profile == "race" {
			// the ACL user-list lock and the connection-table lock are scheduling points too
			s.ParkLocks = map[string]bool{"acl.users": true, "conninfo": true}
		}
		cfg := BaseConfig
		cfg.RequirePass = true
		cfg.Password = "adminpw"
		cfg.AclConfig = filepath.Join(root, "acl.json")
		var saved map[string]*c06User
		// a twin without authentication receives every data command the restricted connections get through
		var twin *Instance
		var twinClient *Client
		if p.Profile == "acl" {
			if tw, err := s.Boot(2, BaseConfig); err == nil {
				twin = tw
				twinClient = s.NewTCPClient(twin, "twin")
			}
		}
		inst, err := s.Boot(1, cfg)
		if err != nil {
			fail("boot-failed", fmt.Sprint(err))
			return
		}
		admin := s.NewTCPClient(inst, "admin")
		if r := admin.DoSync("AUTH", "adminpw"); r.IsError() {
			fail("harness/admin-auth", r.String()+" "+r.Reply.Str)
			return
		}
		// categories of every command from the live table
		catsOf := map[string][]string{}
		for _, c := range []string{"read", "write", "fast", "slow", "keyspace", "string", "hash", "list", "set", "sortedset", "pubsub", "connection", "dangerous", "admin"} {
			r := admin.DoSync("COMMAND", "LIST", "FILTERBY", "ACLCAT", c)
			for _, e := range r.Reply.Elems {
				n := strings.ToLower(e.Text())
				catsOf[n] = append(catsOf[n], c)
			}
		}
		nconn := int(p.K("conns"))
		conns := make([]*Client, nconn)
		who := make([]*c06User, nconn) // nil = default user, not authenticated
		for i := range conns {
			conns[i] = s.NewTCPClient(inst, fmt.Sprintf("c%d", i))
		}
		users := map[string]*c06User{}
		data := func() map[string]string { return DataMap(inst.DB.VerifDump(), false) }
		dice := p.NewDice()
		skip := -1
		for i, op := range p.Ops {
			if o.Sig != "" {
				break
			}
			if i == skip {
				continue
			}
			if p.Profile == "race" && op.Kind == "deluser" && len(op.Args) >= 3 && i+1 < len(p.Ops) && p.Ops[i+1].Kind == "auth" && len(p.Ops[i+1].Args) == 3 && p.Ops[i+1].Args[1] == op.Args[2] && op.Args[2] != "default" {
				// ---- ACL DELUSER u racing AUTH u pw on another connection: once both have completed nobody acts as u
				nx := p.Ops[i+1]
				c := nx.C % nconn
				skip = i + 1
				if who[c] != nil && who[c].name == op.Args[2] {
					continue // already a session of u: covered by the sequential profile
				}
				was := who[c]
				u := users[op.Args[2]]
				couldLogin := u != nil && u.enabled && u.password == nx.Args[2]
				var ares Result
				cdone, adone := false, false
				admin.Start(op.Args, func(r Result) { adone = true })
				conns[c].Start(nx.Args, func(r Result) { ares, cdone = r, true })
				for st := 0; st < 4000 && !(cdone && adone); st++ {
					parked := s.ParkedTasks()
					if len(parked) == 0 {
						s.Settle()
						if len(s.ParkedTasks()) == 0 {
							break
						}
						continue
					}
					tk := parked[dice.Next(len(parked))]
					s.noteChoice(len(parked), tk.Site)
					s.Release(tk)
				}
				s.DrainAll(2000)
				classes = append(classes, fmt.Sprintf("race:deluser||auth:%v", couldLogin))
				if conns[c].SrvPanic != "" || admin.SrvPanic != "" {
					fail("panic/race", conns[c].SrvPanic+admin.SrvPanic)
					break
				}
				if !adone {
					fail("race/edit-never-completed", fmt.Sprintf("step %d %q racing %q never returned", i, op.Args, nx.Args))
					break
				}
				delete(users, op.Args[2])
				for cc := range who {
					if who[cc] != nil && who[cc].name == op.Args[2] {
						conns[cc] = s.NewTCPClient(inst, fmt.Sprintf("c%d.%d", cc, i))
						who[cc] = nil
					}
				}
				accepted := cdone && !ares.IsError() && !ares.Closed && !ares.NoReply
				if accepted && !couldLogin {
					fail("auth/accepted", fmt.Sprintf("step %d %q racing %q was accepted although the credentials never matched", i, nx.Args, op.Args))
					break
				}
				// whatever the order was: the user is gone now. Either the login came first and the session was cut
				// with the user, or it came second and was refused.
				w := conns[c].DoSync("ACL", "WHOAMI")
				if !w.IsError() && !w.Closed && !w.NoReply && w.Reply.Text() == op.Args[2] {
					fail("deleted-user-acts/race", fmt.Sprintf("step %d: %q raced %q (login answered %s); after both completed the connection still answers ACL WHOAMI with %q, a user that no longer exists", i, nx.Args, op.Args, trunc(ares.String(), 40), w.Reply.Text()))
					break
				}
				if w.Closed || w.NoReply || accepted {
					// the session was cut (or is in an unknown state after a login that won the race): start afresh
					conns[c] = s.NewTCPClient(inst, fmt.Sprintf("c%d.%d", c, i))
					who[c] = nil
				} else {
					who[c] = was
				}
				continue
			}
			if p.Profile == "race" && (op.Kind == "toggle" || op.Kind == "deluser" || op.Kind == "reprov") && i+1 < len(p.Ops) && p.Ops[i+1].Kind == "" && len(op.Args) >= 4-ifi(op.Kind == "deluser") {
				// ---- concurrent pair
				nx := p.Ops[i+1]
				c := nx.C % nconn
				name := strings.ToLower(nx.Args[0])
				cats := catsOf[name]
				if len(cats) == 0 || name == "subscribe" {
					continue
				}
				decide := func() (int, string) {
					u := who[c]
					switch {
					case u == nil:
						return -1, "connection not authenticated"
					case users[u.name] == nil || !users[u.name].enabled:
						return -1, "user deleted or disabled"
					}
					return users[u.name].decide(nx.Args, cats)
				}
				v1, _ := decide()
				switch op.Kind {
				case "toggle":
					if u := users[op.Args[2]]; u != nil {
						u.enabled = op.Args[3] == "on"
					}
				case "reprov":
					if users[op.Args[2]] == nil {
						continue // the user was deleted meanwhile: this would create it, not re-apply its rules
					}
					// (an on/off edit made since the creation is overwritten by the list's own on/off token)
					users[op.Args[2]].enabled = parseC06User(op.Args).enabled
				default:
					delete(users, op.Args[2])
				}
				v2, why2 := decide()
				before := data()
				var cres Result
				cdone, adone := false, false
				admin.Start(op.Args, func(r Result) { adone = true })
				conns[c].Start(nx.Args, func(r Result) { cres, cdone = r, true })
				// In half of the re-provisioning races the schedule is directed at the window that matters: the
				// command is taken into its authorisation (up to one of the points between two rule groups), then
				// the update runs up to a dice-chosen token, and only then does the rest follow under the dice.
				wantCmdAt, wantTokens := "", 0
				if op.Kind == "reprov" && dice.Next(4) != 0 {
					// stop the update right after one of its "reset" tokens (the restriction that follows it is not
					// applied yet), with the command waiting in front of the rule group that token belongs to
					type cand struct {
						at     string
						tokens int
					}
					var cands []cand
					for j, t := range op.Args[2:] {
						switch strings.ToLower(t) {
						case "allcategories":
							cands = append(cands, cand{"acl.authorize.categories", j + 1})
						case "allcommands":
							cands = append(cands, cand{"acl.authorize.commands", j + 1})
						case "allkeys", "allchannels":
							cands = append(cands, cand{"acl.authorize.keys", j + 1})
						}
					}
					if len(cands) > 0 {
						pick := cands[dice.Next(len(cands))]
						wantCmdAt, wantTokens = pick.at, pick.tokens
					}
				}
				tokens := 0
				for st := 0; st < 4000 && !(cdone && adone); st++ {
					parked := s.ParkedTasks()
					if len(parked) == 0 {
						s.Settle()
						if len(s.ParkedTasks()) == 0 {
							break
						}
						continue
					}
					if wantCmdAt != "" {
						var cmdT, updT *Task
						for _, x := range parked {
							if strings.HasSuffix(x.Name, conns[c].Name) || strings.Contains(x.Name, ":"+conns[c].Name+":") {
								cmdT = x
							} else if x.Site == "acl.update.token" || strings.HasSuffix(x.Name, admin.Name) || strings.Contains(x.Name, ":"+admin.Name+":") {
								updT = x
							}
						}
						switch {
						case cmdT != nil && cmdT.Site != wantCmdAt && tokens == 0 && !strings.HasPrefix(cmdT.Site, "cmd."):
							s.Release(cmdT)
							continue
						case updT != nil && tokens < wantTokens:
							if updT.Site == "acl.update.token" {
								tokens++
							}
							s.Release(updT)
							continue
						}
						wantCmdAt = ""
					}
					tk := parked[dice.Next(len(parked))]
					s.noteChoice(len(parked), tk.Site)
					s.Release(tk)
				}
				s.DrainAll(2000)
				classes = append(classes, fmt.Sprintf("race:%s||%s:%+d/%+d", op.Kind, name, v1, v2))
				if conns[c].SrvPanic != "" || admin.SrvPanic != "" {
					fail("panic/race", conns[c].SrvPanic+admin.SrvPanic)
					break
				}
				if !adone {
					fail("race/edit-never-completed", fmt.Sprintf("step %d %q racing %q never returned", i, op.Args, nx.Args))
					break
				}
				// the command is judged under the rules before or after the edit - nothing else
				if cdone && !cres.Closed && !cres.NoReply {
					denied := isAuthDenial(cres)
					if v1 == 1 && v2 == 1 && denied {
						fail("allowed-but-denied/race", fmt.Sprintf("step %d %q racing %q: allowed before and after the edit but denied: %s", i, nx.Args, op.Args, cres.Reply.Str))
					}
					if v1 == -1 && v2 == -1 && !cres.IsError() {
						fail("denied-but-ran/race", fmt.Sprintf("step %d %q racing %q: denied before and after the edit (%s) but answered %s", i, nx.Args, op.Args, why2, trunc(cres.String(), 80)))
					}
					if denied {
						if after := data(); !mapsEqual(before, after) {
							fail("denied-with-effect/race", fmt.Sprintf("step %d %q racing %q was denied but changed the dataset: %s", i, nx.Args, op.Args, DiffData(before, after, "before", "after", 3)))
						}
					}
				}
				// sessions of a deleted user are gone afterwards
				if op.Kind == "deluser" {
					for cc := range who {
						if who[cc] != nil && who[cc].name == op.Args[2] {
							conns[cc] = s.NewTCPClient(inst, fmt.Sprintf("c%d.%d", cc, i))
							who[cc] = nil
						}
					}
				} else if cdone && cres.Closed {
					conns[c] = s.NewTCPClient(inst, fmt.Sprintf("c%d.%d", c, i))
					who[c] = nil
				}
				if v1 != 0 || v2 != 0 {
					if v1 == 1 || v2 == 1 {
						allowed++
					}
					if v1 == -1 || v2 == -1 {
						denied++
					}
				}
				skip = i + 1
				continue
			}
			switch op.Kind {
			case "aclsave":
				if r := admin.DoSync("ACL", "SAVE"); r.IsError() || r.Panic != "" {
					fail("save-failed", r.String()+" "+r.Reply.Str)
					break
				}
				saved = map[string]*c06User{}
				for k, u := range users {
					cp := *u
					saved[k] = &cp
				}
			case "aclload":
				if saved == nil {
					continue
				}
				if r := admin.DoSync("ACL", "LOAD", "REPLACE"); r.IsError() || r.Panic != "" {
					fail("load-failed", r.String()+" "+r.Reply.Str)
					break
				}
				for k, u := range saved {
					cp := *u
					users[k] = &cp
				}
			case "toggle":
				if len(op.Args) < 4 {
					continue
				}
				admin.DoSync(op.Args...)
				if u := users[op.Args[2]]; u != nil {
					u.enabled = op.Args[3] == "on"
				}
			case "setuser":
				if len(op.Args) < 4 {
					continue
				}
				r := admin.DoSync(op.Args...)
				if r.IsError() || r.Panic != "" {
					fail("setuser-failed", fmt.Sprintf("op %d %q: %s %s", i, op.Args, r, r.Reply.Str))
					break
				}
				users[op.Args[2]] = parseC06User(op.Args)
			case "deluser":
				if len(op.Args) < 3 {
					continue
				}
				admin.DoSync(op.Args...)
				delete(users, op.Args[2])
				for c := range who {
					if who[c] != nil && who[c].name == op.Args[2] {
						// a deleted user can no longer act: its sessions are terminated (or at least refuse everything)
						r := conns[c].DoSync("GET", "ka1")
						if !(r.Closed || r.NoReply || r.IsError()) {
							fail("deluser/session-alive", fmt.Sprintf("op %d %q: connection %d was authenticated as the deleted user and still executed GET: %s", i, op.Args, c, r))
						}
						conns[c] = s.NewTCPClient(inst, fmt.Sprintf("c%d.%d", c, i))
						who[c] = nil
					}
				}
			case "auth":
				if len(op.Args) < 3 {
					continue
				}
				c := op.C % nconn
				r := conns[c].DoSync(op.Args...)
				u := users[op.Args[1]]
				ok := u != nil && u.enabled && u.password == op.Args[2]
				if ok && r.IsError() {
					fail("auth/refused", fmt.Sprintf("op %d %q refused (%s) although the user exists, is enabled and the password matches", i, op.Args, r.Reply.Str))
				}
				if !ok && !r.IsError() {
					fail("auth/accepted", fmt.Sprintf("op %d %q accepted although user=%v", i, op.Args, u))
				}
				if ok {
					who[c] = u
				}
			default:
				c := op.C % nconn
				name := strings.ToLower(op.Args[0])
				cats := catsOf[name]
				if len(cats) == 0 {
					continue
				}
				var verdict int
				why := ""
				u := who[c]
				switch {
				case u == nil:
					verdict, why = -1, "connection not authenticated"
				case users[u.name] == nil || !users[u.name].enabled:
					verdict, why = -1, "user deleted or disabled"
				default:
					verdict, why = users[u.name].decide(op.Args, cats)
				}
				before := data()
				r := conns[c].DoSync(op.Args...)
				if r.Panic != "" {
					fail("panic/"+strings.ToUpper(name), r.Panic)
					break
				}
				// (the set-algebra handlers answer differently from one execution to the next when an operand has the
				// wrong type - Go map iteration - and are left out of the comparison, not out of the twin's history)
				iterDep := strings.HasPrefix(name, "sinter") || strings.HasPrefix(name, "sunion") || strings.HasPrefix(name, "sdiff")
				if twin != nil && name != "subscribe" && name != "publish" && !isAuthDenial(r) && !r.Closed && !r.NoReply {
					// authorisation is transparent for a command it lets through: the command that runs is the command
					// that was sent - same reply, same effect as on a server that requires no authentication
					tr := twinClient.DoSync(op.Args...)
					if !iterDep && canonResult(op.Args, r) != canonResult(op.Args, tr) {
						fail("allowed-but-altered/"+strings.ToUpper(name), fmt.Sprintf("op %d %q by an authorised connection answered %s; the same command history on a server without authentication answers %s", i, op.Args, trunc(r.String(), 120), trunc(tr.String(), 120)))
						break
					}
				}
				if name == "subscribe" && !r.IsError() {
					// the connection is now in subscribed mode; take it out again so that later replies line up
					conns[c].DoSync("UNSUBSCRIBE")
				}
				deniedNow := isAuthDenial(r)
				classes = append(classes, fmt.Sprintf("%s/%d:%+d", name, len(op.Args), verdict))
				switch {
				case verdict == 1 && deniedNow:
					allowed++
					fail("allowed-but-denied/"+ruleClass(why), fmt.Sprintf("op %d %q by %s: every rule passes (%s) but the server answered %q", i, op.Args, userDesc(u), why, r.Reply.Str))
				case verdict == -1 && !r.IsError():
					denied++
					fail("denied-but-ran/"+ruleClass(why), fmt.Sprintf("op %d %q by %s must be denied (%s) but the server answered %s", i, op.Args, userDesc(u), why, trunc(r.String()+" "+r.Reply.Str, 100)))
				case verdict == 1:
					allowed++
				case verdict == -1:
					denied++
					if after := data(); !mapsEqual(before, after) {
						fail("denied-with-effect/"+ruleClass(why), fmt.Sprintf("op %d %q was denied but changed the dataset: %s", i, op.Args, DiffData(before, after, "before", "after", 3)))
					}
				}
			}
		}
		o.Stats = s.Stats
		o.Log = s.Log
	})
	if br.panicVal != nil && o.Sig == "" {
		o.Sig = "C06/panic/" + topRepoFrame(br.stack)
		o.Detail = fmt.Sprintf("%v\n%s", br.panicVal, br.stack)
	}
	o.Trivial = allowed == 0 || denied == 0
	o.Class = strings.Join(classes, ",")
	o.Sample = map[string]any{"allowed": allowed, "denied": denied, "decisions": classes}
	return o
}

func ifi(b bool) int {
	if b {
		return 1
	}
	return 0
}

func ruleClass(why string) string {
	f := strings.Fields(why)
	if len(f) == 0 {
		return "rule"
	}
	switch f[0] {
	case "category", "command", "channel", "nokeys", "connection", "user", "all":
		return f[0]
	case "read", "write", "key":
		return f[0] + "-key"
	}
	return "rule"
}

func userDesc(u *c06User) string {
	if u == nil {
		return "<unauthenticated>"
	}
	return fmt.Sprintf("%s{cats+%v-%v cmds+%v-%v R%v W%v nokeys=%v ch+%v-%v}", u.name, u.inclCats, u.exclCats, u.inclCmds, u.exclCmds, u.readGlobs, u.writeGlobs, u.noKeys, u.inclCh, u.exclCh)
}
