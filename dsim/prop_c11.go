package dsim

// C11 — authentication and user lifecycle follow the stored credentials.

import (
	"crypto/sha256"
	"encoding/hex"
	"fmt"
	"os"
	"path/filepath"
	"sort"
	"strings"
	"testing"
)

func init() {
	register(&PropDef{
		ID: "C11",
		Rule: "plan = histories of ACL SETUSER (on/off, >pw, <pw, #hash, !hash, nopass, resetpass), DELUSER (including default), AUTH (1- and 2-argument), HELLO ... AUTH, ACL SAVE, ACL LOAD MERGE|REPLACE and restarts on the saved JSON or YAML file, on 2-4 connections with right and wrong passwords, disabled and unknown users; after every step each connection is probed (ACL WHOAMI and a data command); " +
			"non-trivial = at least one successful and one failed authentication; distinct = hash of the (step kind, outcome) sequence",
		Gen:         genC11,
		Run:         runC11,
		Real:        []string{"acl.AuthenticateConnection / RegisterConnection", "ACL SETUSER/DELUSER/LOAD/SAVE/WHOAMI handlers", "user.UpdateUser/Normalise/Merge/Replace", "HELLO/AUTH handlers", "ACL config file load at start-up (JSON and YAML)"},
		Stub:        []string{"TCP sockets", "the config file lives on tmpfs; no crash is injected into ACL SAVE in this profile"},
		Assumptions: []string{"every test user gets allCategories allCommands allKeys allChannels so that authentication is the only variable", "LOAD MERGE: passwords are united and the enabled/nopass flags come from the file; LOAD REPLACE: users present in the file take the file's state, others stay"},
	})
}

type c11User struct {
	enabled bool
	nopass  bool
	plain   map[string]bool
	hashes  map[string]bool
}

func (u *c11User) clone() *c11User {
	c := &c11User{enabled: u.enabled, nopass: u.nopass, plain: map[string]bool{}, hashes: map[string]bool{}}
	for k := range u.plain {
		c.plain[k] = true
	}
	for k := range u.hashes {
		c.hashes[k] = true
	}
	return c
}

func sha(s string) string {
	h := sha256.Sum256([]byte(s))
	return hex.EncodeToString(h[:])
}

func (u *c11User) accepts(pw string) bool {
	return u != nil && u.enabled && (u.nopass || u.plain[pw] || u.hashes[sha(pw)])
}

var c11Pws = []string{"pa", "pb", "pc"}

func genC11(r *Rng, tier string, idx int) *Plan {
	p := &Plan{Profile: "auth", Knobs: map[string]int64{}, SKnobs: map[string]string{}}
	p.SKnobs["ext"] = Pick(r, []string{".json", ".yaml"})
	nconn := r.Range(2, 4)
	p.Knobs["conns"] = int64(nconn)
	p.Dice = drawDice(r, 128)
	names := []string{"ua", "ub", "uc"}
	n := r.Range(6, 28)
	if tier == "thorough" {
		n = r.Range(6, 70)
	}
	for i := 0; i < n; i++ {
		c := r.Intn(nconn)
		u := Pick(r, names)
		switch x := r.Intn(100); {
		case x < 25:
			a := []string{"ACL", "SETUSER", u, "allCategories", "allCommands", "allKeys", "allChannels"}
			if r.Chance(0.2) {
				// a reset keyword on its own (combining it with password edits in one command is not defined by the documentation)
				a = append(a, Pick(r, []string{"nopass", "resetpass"}))
				if r.Bool() {
					a = append(a, Pick(r, []string{"on", "off"}))
				}
			} else {
				for j, m := 0, r.Range(1, 3); j < m; j++ {
					pw := Pick(r, c11Pws)
					a = append(a, Pick(r, []string{"on", "on", "off", ">" + pw, ">" + pw, "<" + pw, "#" + sha(pw), "!" + sha(pw)}))
				}
			}
			p.Ops = append(p.Ops, Op{Kind: "setuser", Args: a})
		case x < 30:
			p.Ops = append(p.Ops, Op{Kind: "deluser", Args: []string{"ACL", "DELUSER", Pick(r, append(names, "default"))}})
		case x < 32:
			// ACL DELUSER u racing a login as u on another connection (dice-scheduled at the ACL user-list lock)
			p.Ops = append(p.Ops, Op{Kind: "race", C: c, S: u, Args: []string{"AUTH", u, Pick(r, c11Pws)}})
		case x < 36:
			// ACL LOAD racing SETUSER <u> on|off + SAVE of another administrator (dice-scheduled at the user-list lock)
			p.Ops = append(p.Ops, Op{Kind: "loadrace", S: Pick(r, []string{"MERGE", "REPLACE"}), Args: []string{u}})
		case x < 62:
			pw := Pick(r, append(c11Pws, "wrong"))
			if r.Chance(0.12) {
				pw = sha(Pick(r, c11Pws)) // the stored digest itself is not a password
			}
			p.Ops = append(p.Ops, Op{Kind: "auth", C: c, Args: []string{"AUTH", Pick(r, append(names, "nobody")), pw}})
		case x < 68:
			p.Ops = append(p.Ops, Op{Kind: "auth", C: c, Args: []string{"AUTH", Pick(r, []string{"adminpw", "wrong"})}})
		case x < 76:
			p.Ops = append(p.Ops, Op{Kind: "auth", C: c, Args: []string{"HELLO", Pick(r, []string{"2", "3"}), "AUTH", Pick(r, names), Pick(r, c11Pws)}})
		case x < 82:
			p.Ops = append(p.Ops, Op{Kind: "save"})
		case x < 90:
			p.Ops = append(p.Ops, Op{Kind: "load", S: Pick(r, []string{"MERGE", "REPLACE"})})
		case x < 95:
			p.Ops = append(p.Ops, Op{Kind: "restart"})
		default:
			p.Ops = append(p.Ops, Op{Kind: "newconn", C: c})
		}
	}
	return p
}

func runC11(t *testing.T, p *Plan) *Outcome {
	o := &Outcome{Trivial: true}
	var classes []string
	root := filepath.Join(scratchDir(), fmt.Sprintf("r%d", runCounter.Add(1)))
	_ = os.MkdirAll(root, 0o755)
	defer os.RemoveAll(root)
	fail := func(sig, detail string) {
		if o.Sig == "" {
			o.Sig, o.Detail = "C11/"+sig, detail
		}
	}
	okAuth, badAuth := 0, 0
	br := RunBubble(t, func() {
		s := NewSim()
		s.install()
		defer s.uninstall()
		dice := p.NewDice()
		cfg := BaseConfig
		cfg.RequirePass = true
		cfg.Password = "adminpw"
		cfg.AclConfig = filepath.Join(root, "acl"+p.SK("ext"))
		gen := 0
		var inst *Instance
		var admin *Client
		nconn := int(p.K("conns"))
		conns := make([]*Client, nconn)
		who := make([]string, nconn) // "" = unauthenticated default
		users := map[string]*c11User{"default": {enabled: true, plain: map[string]bool{"adminpw": true}, hashes: map[string]bool{}}}
		var saved map[string]*c11User
		boot := func() bool {
			gen++
			var err error
			inst, err = s.Boot(gen, cfg)
			if err != nil || inst.Panic != "" {
				fail("restart-failed", fmt.Sprintf("%v %s", err, inst.Panic))
				return false
			}
			admin = s.NewTCPClient(inst, fmt.Sprintf("admin%d", gen))
			if r := admin.DoSync("AUTH", "adminpw"); r.IsError() && users["default"].accepts("adminpw") {
				fail("auth/refused:default", "the default user's password is refused after start-up: "+r.Reply.Str)
				return false
			}
			for i := range conns {
				conns[i] = s.NewTCPClient(inst, fmt.Sprintf("g%dc%d", gen, i))
				who[i] = ""
			}
			return true
		}
		if !boot() {
			return
		}
		probe := func(step int, what string) {
			for c := 0; c < nconn && o.Sig == ""; c++ {
				r := conns[c].DoSync("ACL", "WHOAMI")
				if who[c] == "" {
					// a new / failed connection is the default user, not authenticated (the default user has a password)
					if !r.IsError() && !(r.Closed || r.NoReply) {
						fail("identity/unauthenticated-acts", fmt.Sprintf("after step %d (%s): connection %d never authenticated but ACL WHOAMI answered %s", step, what, c, r))
					}
					continue
				}
				if u := users[who[c]]; u != nil && !u.enabled {
					// "a deleted or disabled user can no longer act": its sessions are denied until it is enabled again
					g := conns[c].DoSync("GET", "probe")
					if !r.IsError() || !g.IsError() {
						fail("identity/disabled-acts", fmt.Sprintf("after step %d (%s): connection %d is a session of the disabled user %q but ACL WHOAMI answered %s and GET answered %s", step, what, c, who[c], r, g))
					}
					continue
				}
				if r.IsError() || r.Reply.Text() != who[c] {
					fail("identity/whoami", fmt.Sprintf("after step %d (%s): connection %d is authenticated as %q but ACL WHOAMI answered %s %s", step, what, c, who[c], r, r.Reply.Str))
					continue
				}
				if g := conns[c].DoSync("GET", "probe"); isAuthDenial(g) {
					fail("identity/privileges", fmt.Sprintf("after step %d (%s): connection %d (user %q, all permissions) was denied GET: %s", step, what, c, who[c], g.Reply.Str))
				}
			}
		}
		for i, op := range p.Ops {
			if o.Sig != "" {
				break
			}
			switch op.Kind {
			case "setuser":
				if len(op.Args) < 4 {
					continue
				}
				r := admin.DoSync(op.Args...)
				if r.Panic != "" || r.IsError() {
					fail("setuser-failed", fmt.Sprintf("step %d %q: %s %s", i, op.Args, r, r.Reply.Str))
					break
				}
				u := users[op.Args[2]]
				if u == nil {
					u = &c11User{enabled: true, plain: map[string]bool{}, hashes: map[string]bool{}}
					users[op.Args[2]] = u
				}
				var late []string
				for _, t := range op.Args[3:] {
					switch {
					case t == "on":
						u.enabled = true
					case t == "off":
						u.enabled = false
					case strings.HasPrefix(t, ">"):
						u.plain[t[1:]], u.nopass = true, false
					case strings.HasPrefix(t, "<"):
						delete(u.plain, t[1:])
					case strings.HasPrefix(t, "#"):
						u.hashes[t[1:]], u.nopass = true, false
					case strings.HasPrefix(t, "!"):
						delete(u.hashes, t[1:])
					case t == "nopass" || t == "resetpass":
						late = append(late, t)
					}
				}
				// the reset keywords apply to the whole command, whatever their position (documentation: "reset the user")
				for _, t := range late {
					u.plain, u.hashes = map[string]bool{}, map[string]bool{}
					u.nopass = t == "nopass"
				}
				if len(late) == 2 {
					u.nopass = false // resetpass is applied after nopass
				}
				classes = append(classes, "setuser")
			case "deluser":
				if len(op.Args) < 3 {
					continue
				}
				name := op.Args[2]
				admin.DoSync(op.Args...)
				classes = append(classes, "deluser:"+ifs(name == "default", "default", "user"))
				if name == "default" {
					break // the default user cannot be deleted
				}
				delete(users, name)
				for c := range who {
					if who[c] == name {
						if r := conns[c].DoSync("GET", "probe"); !(r.Closed || r.NoReply || r.IsError()) {
							fail("deluser/session-alive", fmt.Sprintf("step %d: connection %d was authenticated as deleted user %q and still executed GET: %s", i, c, name, r))
						}
						conns[c] = s.NewTCPClient(inst, fmt.Sprintf("g%dc%d.%d", gen, c, i))
						who[c] = ""
					}
				}
			case "race":
				if len(op.Args) != 3 || op.S == "" || op.S == "default" {
					continue
				}
				c := op.C % nconn
				name := op.S
				if who[c] == name {
					continue
				}
				couldLogin := users[name].accepts(op.Args[2])
				var ares Result
				cdone, adone := false, false
				s.ParkLocks = map[string]bool{"acl.users": true, "conninfo": true}
				admin.Start([]string{"ACL", "DELUSER", name}, func(r Result) { adone = true })
				conns[c].Start(op.Args, func(r Result) { ares, cdone = r, true })
				for st := 0; st < 4000 && !(cdone && adone); st++ {
					parked := s.ParkedTasks()
					if len(parked) == 0 {
						s.Settle()
						if len(s.ParkedTasks()) == 0 {
							break
						}
						continue
					}
					tk := parked[dice.Next(len(parked))]
					s.noteChoice(len(parked), tk.Site)
					s.Release(tk)
				}
				s.DrainAll(2000)
				s.ParkLocks = nil
				classes = append(classes, fmt.Sprintf("race:deluser||auth:%v", couldLogin))
				if conns[c].SrvPanic != "" || admin.SrvPanic != "" {
					fail("panic/race", conns[c].SrvPanic+admin.SrvPanic)
					break
				}
				if !adone {
					fail("race/deluser-never-completed", fmt.Sprintf("step %d: ACL DELUSER %s racing %q never returned", i, name, op.Args))
					break
				}
				delete(users, name)
				for cc := range who {
					if who[cc] == name {
						conns[cc] = s.NewTCPClient(inst, fmt.Sprintf("g%dc%d.%d", gen, cc, i))
						who[cc] = ""
					}
				}
				accepted := cdone && !ares.IsError() && !ares.Closed && !ares.NoReply
				if accepted && !couldLogin {
					fail("auth/accepted", fmt.Sprintf("step %d %q racing ACL DELUSER %s was accepted; stored credentials never matched", i, op.Args, name))
					break
				}
				// whatever the order: the user is gone now, nobody acts as it
				w := conns[c].DoSync("ACL", "WHOAMI")
				if !w.IsError() && !w.Closed && !w.NoReply && w.Reply.Text() == name {
					fail("deluser/session-alive-after-race", fmt.Sprintf("step %d: %q raced ACL DELUSER %s (login answered %s); after both completed the connection still is %q", i, op.Args, name, trunc(ares.String(), 40), name))
					break
				}
				if w.Closed || w.NoReply || accepted {
					conns[c] = s.NewTCPClient(inst, fmt.Sprintf("g%dc%d.%d", gen, c, i))
					who[c] = ""
				}
			case "loadrace":
				// Two administrators: one reloads the file, the other flips a user's on/off flag and saves. Whatever the
				// order, afterwards the user table in memory is the one in the file (SAVE ran after SETUSER on its
				// connection; a LOAD that ran last read that file), so one more LOAD REPLACE changes nothing.
				if len(op.Args) != 1 || users[op.Args[0]] == nil {
					continue
				}
				name := op.Args[0]
				u := users[name]
				pw := ""
				for _, cand := range c11Pws {
					if (u.plain[cand] || u.hashes[sha(cand)]) && pw == "" {
						pw = cand
					}
				}
				if pw == "" || u.nopass {
					continue // the flag would not be observable through AUTH
				}
				if r := admin.DoSync("ACL", "SAVE"); r.IsError() || r.Panic != "" {
					fail("save-failed", r.String()+" "+r.Reply.Str)
					break
				}
				saved = map[string]*c11User{}
				for k, x := range users {
					saved[k] = x.clone()
				}
				admin2 := s.NewTCPClient(inst, fmt.Sprintf("g%dadm2.%d", gen, i))
				if r := admin2.DoSync("AUTH", "adminpw"); r.IsError() {
					continue
				}
				flag := ifs(u.enabled, "off", "on")
				ldone, sdone, vstarted, vdone := false, false, false, false
				var lres, sres, vres Result
				s.ParkLocks = map[string]bool{"acl.users": true}
				admin.Start([]string{"ACL", "LOAD", op.S}, func(r Result) { lres, ldone = r, true })
				admin2.Start([]string{"ACL", "SETUSER", name, flag}, func(r Result) { sres, sdone = r, true })
				for st := 0; st < 4000 && !(ldone && vdone); st++ {
					if sdone && !vstarted {
						vstarted = true
						admin2.Start([]string{"ACL", "SAVE"}, func(r Result) { vres, vdone = r, true })
					}
					parked := s.ParkedTasks()
					if len(parked) == 0 {
						s.Settle()
						if len(s.ParkedTasks()) == 0 && (!sdone || vstarted) {
							break
						}
						continue
					}
					tk := parked[dice.Next(len(parked))]
					s.noteChoice(len(parked), tk.Site)
					s.Release(tk)
				}
				s.DrainAll(2000)
				s.ParkLocks = nil
				classes = append(classes, "race:load||setuser+save:"+strings.ToLower(op.S))
				if admin.SrvPanic != "" || admin2.SrvPanic != "" {
					fail("panic/race", admin.SrvPanic+admin2.SrvPanic)
					break
				}
				if !ldone || !sdone || !vdone {
					fail("race/load-never-completed", fmt.Sprintf("step %d: ACL LOAD %s racing ACL SETUSER %s %s + ACL SAVE: load answered %v, setuser %v, save %v", i, op.S, name, flag, ldone, sdone, vdone))
					break
				}
				if lres.IsError() || sres.IsError() || vres.IsError() {
					fail("race/load-failed", fmt.Sprintf("step %d: ACL LOAD %s racing ACL SETUSER %s %s + ACL SAVE: %s / %s / %s", i, op.S, name, flag, lres.Reply.Str, sres.Reply.Str, vres.Reply.Str))
					break
				}
				pc := s.NewTCPClient(inst, fmt.Sprintf("g%dprobe.%d", gen, i))
				vector := func() string {
					var sb strings.Builder
					for _, n := range []string{"ua", "ub", "uc"} {
						for _, cand := range c11Pws {
							r := pc.DoSync("AUTH", n, cand)
							sb.WriteString(ifs(!r.IsError() && !r.Closed && !r.NoReply, "1", "0"))
						}
						sb.WriteString(" ")
					}
					return sb.String()
				}
				before := vector()
				if r := admin.DoSync("ACL", "LOAD", "REPLACE"); r.IsError() {
					fail("load-failed", "ACL LOAD REPLACE: "+r.Reply.Str)
					break
				}
				if after := vector(); after != before {
					fail("load-race/memory-differs-from-file", fmt.Sprintf("step %d: ACL LOAD %s ran concurrently with ACL SETUSER %s %s + ACL SAVE on another connection, all three acknowledged; logins accepted afterwards (ua ub uc x %v): %s, after one more ACL LOAD REPLACE: %s - the table in memory was not the one in the file, no order of the three commands explains that", i, op.S, name, flag, c11Pws, before, after))
					break
				}
				// which order it was shows in the flag (the file held the old one)
				if r := pc.DoSync("AUTH", name, pw); (!r.IsError() && !r.Closed && !r.NoReply) != u.enabled {
					u.enabled = !u.enabled
				}
				saved = map[string]*c11User{}
				for k, x := range users {
					saved[k] = x.clone()
				}
			case "newconn":
				c := op.C % nconn
				conns[c] = s.NewTCPClient(inst, fmt.Sprintf("g%dc%d.%d", gen, c, i))
				who[c] = ""
				classes = append(classes, "newconn")
			case "auth":
				c := op.C % nconn
				var name, pw string
				switch {
				case strings.EqualFold(op.Args[0], "HELLO") && len(op.Args) == 5:
					name, pw = op.Args[3], op.Args[4]
				case len(op.Args) == 3:
					name, pw = op.Args[1], op.Args[2]
				case len(op.Args) == 2:
					name, pw = "default", op.Args[1]
				default:
					continue
				}
				r := conns[c].DoSync(op.Args...)
				if r.Panic != "" {
					fail("panic/AUTH", r.Panic)
					break
				}
				want := users[name].accepts(pw)
				got := !r.IsError() && !r.Closed && !r.NoReply
				classes = append(classes, fmt.Sprintf("%s:%v", strings.ToLower(op.Args[0]), want))
				switch {
				case want && !got:
					fail("auth/refused", fmt.Sprintf("step %d %q: user %+v accepts this password but the server answered %s %s", i, op.Args, descUser(users[name]), r, r.Reply.Str))
				case !want && got:
					fail("auth/accepted", fmt.Sprintf("step %d %q was accepted; stored credentials: %s", i, op.Args, descUser(users[name])))
				case want:
					who[c] = name
					okAuth++
				default:
					badAuth++ // a failed attempt leaves the identity unchanged (checked by the probe)
				}
			case "save":
				r := admin.DoSync("ACL", "SAVE")
				if r.IsError() || r.Panic != "" {
					fail("save-failed", r.String()+" "+r.Reply.Str)
					break
				}
				saved = map[string]*c11User{}
				for k, u := range users {
					saved[k] = u.clone()
				}
				classes = append(classes, "save")
			case "load":
				if saved == nil {
					continue
				}
				r := admin.DoSync("ACL", "LOAD", op.S)
				if r.IsError() || r.Panic != "" {
					fail("load-failed", fmt.Sprintf("ACL LOAD %s: %s %s", op.S, r, r.Reply.Str))
					break
				}
				for k, su := range saved {
					cur := users[k]
					if cur == nil || op.S == "REPLACE" {
						users[k] = su.clone()
						continue
					}
					// MERGE
					cur.enabled, cur.nopass = su.enabled, su.nopass
					for pw := range su.plain {
						cur.plain[pw] = true
					}
					for h := range su.hashes {
						cur.hashes[h] = true
					}
				}
				classes = append(classes, "load:"+strings.ToLower(op.S))
			case "restart":
				if saved == nil {
					continue
				}
				s.KillInstance(inst.ID)
				users = map[string]*c11User{}
				for k, su := range saved {
					users[k] = su.clone()
				}
				if !boot() {
					return
				}
				classes = append(classes, "restart")
			}
			if o.Sig == "" {
				probe(i, op.Kind)
			}
		}
		o.Stats = s.Stats
	})
	if br.panicVal != nil && o.Sig == "" {
		o.Sig = "C11/panic/" + topRepoFrame(br.stack)
		o.Detail = fmt.Sprintf("%v\n%s", br.panicVal, br.stack)
	}
	o.Trivial = okAuth == 0 || badAuth == 0
	o.Class = strings.Join(classes, ",")
	o.Sample = map[string]any{"steps": classes, "ok": okAuth, "failed": badAuth}
	return o
}

func descUser(u *c11User) string {
	if u == nil {
		return "<no such user>"
	}
	var pl, hs []string
	for k := range u.plain {
		pl = append(pl, k)
	}
	for k := range u.hashes {
		hs = append(hs, k[:8])
	}
	sort.Strings(pl)
	sort.Strings(hs)
	return fmt.Sprintf("{enabled=%v nopass=%v plain=%v sha256=%v}", u.enabled, u.nopass, pl, hs)
}
