package dsim

// A strict, independent RESP2/RESP3 reply parser and a command encoder.

import (
	"errors"
	"fmt"
	"strconv"
	"strings"
)

type RKind byte

const (
	RSimple RKind = '+'
	RError  RKind = '-'
	RInt    RKind = ':'
	RBulk   RKind = '$'
	RArray  RKind = '*'
	RNull   RKind = '_'
	RDouble RKind = ','
	RBool   RKind = '#'
	RMap    RKind = '%'
	RSet    RKind = '~'
	RPush   RKind = '>'
	RBig    RKind = '('
	RVerb   RKind = '='
)

type Reply struct {
	Kind  RKind
	Str   string // simple, error, bulk, double, big, verbatim
	Int   int64
	Null  bool // null bulk / null array / RESP3 null
	Elems []Reply
}

var ErrIncomplete = errors.New("incomplete")

// ParseReply parses one reply from b. Returns the reply and the number of bytes consumed.
// ErrIncomplete when b holds a proper prefix of a reply; any other error = malformed.
func ParseReply(b []byte) (Reply, int, error) {
	if len(b) == 0 {
		return Reply{}, 0, ErrIncomplete
	}
	line, n, err := readLine(b[1:])
	if err != nil {
		return Reply{}, 0, err
	}
	n++ // type byte
	switch RKind(b[0]) {
	case RSimple, RError:
		if strings.ContainsAny(line, "\r\n") {
			return Reply{}, 0, fmt.Errorf("CR/LF inside simple string %q", line)
		}
		return Reply{Kind: RKind(b[0]), Str: line}, n, nil
	case RInt:
		v, err := strconv.ParseInt(line, 10, 64)
		if err != nil {
			return Reply{}, 0, fmt.Errorf("bad integer %q", line)
		}
		return Reply{Kind: RInt, Int: v}, n, nil
	case RDouble, RBig:
		return Reply{Kind: RKind(b[0]), Str: line}, n, nil
	case RBool:
		if line != "t" && line != "f" {
			return Reply{}, 0, fmt.Errorf("bad bool %q", line)
		}
		r := Reply{Kind: RBool}
		if line == "t" {
			r.Int = 1
		}
		return r, n, nil
	case RNull:
		if line != "" {
			return Reply{}, 0, fmt.Errorf("bad null %q", line)
		}
		return Reply{Kind: RNull, Null: true}, n, nil
	case RBulk, RVerb:
		l, err := strconv.Atoi(line)
		if err != nil || l < -1 {
			return Reply{}, 0, fmt.Errorf("bad bulk length %q", line)
		}
		if l == -1 {
			return Reply{Kind: RBulk, Null: true}, n, nil
		}
		if len(b) < n+l+2 {
			return Reply{}, 0, ErrIncomplete
		}
		if b[n+l] != '\r' || b[n+l+1] != '\n' {
			return Reply{}, 0, fmt.Errorf("bulk of declared length %d not followed by CRLF", l)
		}
		return Reply{Kind: RKind(b[0]), Str: string(b[n : n+l])}, n + l + 2, nil
	case RArray, RSet, RPush, RMap:
		l, err := strconv.Atoi(line)
		if err != nil || l < -1 {
			return Reply{}, 0, fmt.Errorf("bad aggregate length %q", line)
		}
		r := Reply{Kind: RKind(b[0])}
		if l == -1 {
			r.Null = true
			return r, n, nil
		}
		cnt := l
		if RKind(b[0]) == RMap {
			cnt = 2 * l
		}
		r.Elems = make([]Reply, 0, cnt)
		for i := 0; i < cnt; i++ {
			e, m, err := ParseReply(b[n:])
			if err != nil {
				return Reply{}, 0, err
			}
			r.Elems = append(r.Elems, e)
			n += m
		}
		return r, n, nil
	}
	return Reply{}, 0, fmt.Errorf("unknown reply type byte %q", b[0])
}

func readLine(b []byte) (string, int, error) {
	for i := 0; i+1 < len(b); i++ {
		if b[i] == '\r' && b[i+1] == '\n' {
			return string(b[:i]), i + 2, nil
		}
	}
	// a bare LF before any CRLF in a header line is malformed, but we cannot know until CRLF shows up
	return "", 0, ErrIncomplete
}

// ParseAll parses a whole buffer into replies; rest is the unparsed tail (incomplete), err = malformed.
func ParseAll(b []byte) (replies []Reply, rest []byte, err error) {
	for len(b) > 0 {
		r, n, e := ParseReply(b)
		if e == ErrIncomplete {
			return replies, b, nil
		}
		if e != nil {
			return replies, b, e
		}
		replies = append(replies, r)
		b = b[n:]
	}
	return replies, nil, nil
}

// EncodeCmd encodes a command as a RESP array of bulk strings.
func EncodeCmd(args ...string) []byte {
	var sb strings.Builder
	sb.WriteString("*" + strconv.Itoa(len(args)) + "\r\n")
	for _, a := range args {
		sb.WriteString("$" + strconv.Itoa(len(a)) + "\r\n")
		sb.WriteString(a)
		sb.WriteString("\r\n")
	}
	return []byte(sb.String())
}

func (r Reply) IsErr() bool { return r.Kind == RError }

// IsNil: any of the null encodings.
func (r Reply) IsNil() bool { return r.Null }

// Text returns the string payload of simple/bulk/int/double replies.
func (r Reply) Text() string {
	switch r.Kind {
	case RInt:
		return strconv.FormatInt(r.Int, 10)
	case RBool:
		if r.Int == 1 {
			return "1"
		}
		return "0"
	}
	return r.Str
}

func (r Reply) String() string {
	switch r.Kind {
	case RSimple:
		return "+" + r.Str
	case RError:
		return "-" + r.Str
	case RInt:
		return ":" + strconv.FormatInt(r.Int, 10)
	case RBool:
		return "#" + strconv.FormatInt(r.Int, 10)
	case RNull:
		return "_"
	case RDouble:
		return "," + r.Str
	case RBig:
		return "(" + r.Str
	case RBulk, RVerb:
		if r.Null {
			return "$nil"
		}
		return fmt.Sprintf("$%q", r.Str)
	default:
		if r.Null {
			return string(r.Kind) + "nil"
		}
		parts := make([]string, len(r.Elems))
		for i, e := range r.Elems {
			parts[i] = e.String()
		}
		return string(r.Kind) + "[" + strings.Join(parts, " ") + "]"
	}
}
