package dsim

// C08, profile "conc": the asynchronous cache bookkeeping (updateKeysInCache goroutines: LRU/LFU heap updates and
// eviction) is interleaved by the dice with commands of another connection that change a key's candidate status
// (PERSIST, EXPIRE, DEL, SET), at keyspace and store-lock granularity. After every concurrent pair has quiesced and
// after pressure writes that cross the limit, the bookkeeping invariants of the property are checked on the
// white-box dump: no residue of removed keys in the volatile index or the heaps, under a volatile policy only keys
// WITH a deadline in the candidate heaps, every eviction started at or above the limit, and a key without a
// deadline is never evicted under a volatile policy.

import (
	"fmt"

	"github.com/echovault/sugardb/sugardb"
	"sort"
	"strconv"
	"strings"
	"sync"
	"testing"
	"time"
)

func genC08Conc(r *Rng, tier string, p *Plan) *Plan {
	p.Profile = "conc"
	p.SKnobs["policy"] = Pick(r, []string{"volatile-lru", "volatile-lfu", "volatile-lru", "allkeys-lru", "allkeys-lfu"})
	p.Knobs["fit"] = int64(r.Range(3, 8))
	nkeys := int(p.Knobs["fit"]) + r.Range(0, 3)
	key := func() string { return "k" + strconv.Itoa(r.Intn(nkeys)) }
	// fill
	for i := 0; i < nkeys; i++ {
		a := []string{"SET", "k" + strconv.Itoa(i), "val-xxxxxx"}
		if r.Chance(0.6) {
			a = append(a, "EX", strconv.Itoa(r.Range(1000, 5000)))
		}
		p.Ops = append(p.Ops, Op{Args: a})
	}
	n := r.Range(4, 14)
	if tier == "thorough" {
		n = r.Range(4, 40)
	}
	for i := 0; i < n; i++ {
		k := key()
		switch x := r.Intn(100); {
		case x < 60:
			// a command that touches k (its bookkeeping goroutine) next to one that changes k's candidate status
			touch := Pick(r, [][]string{{"GET", k}, {"TOUCH", k}, {"GET", k}, {"MGET", k, key(), key()}})
			change := Pick(r, [][]string{{"PERSIST", k}, {"PERSIST", k}, {"DEL", k}, {"EXPIRE", k, "3000"}, {"SET", k, "val-yyyyyy"}})
			p.Ops = append(p.Ops, Op{Kind: "pairA", Args: touch}, Op{Kind: "pairB", Args: change})
		case x < 80:
			// pressure: cross the limit
			p.Ops = append(p.Ops, Op{Kind: "pressure", Args: []string{"SET", "p" + strconv.Itoa(i), "val-" + strings.Repeat("z", r.Range(0, 30))}})
		case x < 90:
			a := []string{"SET", k, "val-xxxxxx"}
			if r.Bool() {
				a = append(a, "EX", "4000")
			}
			p.Ops = append(p.Ops, Op{Args: a})
		default:
			p.Ops = append(p.Ops, Op{Args: []string{"EXPIRE", k, "2500"}})
		}
	}
	p.Dice = drawDice(r, 192)
	return p
}

func runC08Conc(t *testing.T, p *Plan) *Outcome {
	o := &Outcome{Trivial: true}
	var class []string
	policy := p.SK("policy")
	fail := func(sig, detail string) {
		if o.Sig == "" {
			o.Sig, o.Detail = "C08/"+policy+"/"+sig, detail
		}
	}
	br := RunBubble(t, func() {
		s := NewSim()
		s.logOn = true
		s.install()
		defer s.uninstall()
		dice := p.NewDice()
		// the heap mutexes of the LFU/LRU caches are scheduling points too: a step that decides under the store
		// lock and updates a heap later can be overtaken in between
		s.ParkLocks = map[string]bool{"cache.lfu": true, "cache.lru": true}
		probe, err := s.Boot(99, BaseConfig)
		if err != nil {
			fail("boot-failed", fmt.Sprint(err))
			return
		}
		s.NewEmbeddedClient(probe, "p").DoSync("SET", "k0", "val-xxxxxx")
		per := probe.DB.VerifDump().DBs[0]["k0"].Mem
		s.KillInstance(99)
		cfg := BaseConfig
		cfg.EvictionPolicy = policy
		cfg.MaxMemory = uint64(per * p.K("fit"))
		cfg.EvictionInterval = time.Hour
		inst, err := s.Boot(1, cfg)
		if err != nil {
			fail("boot-failed", fmt.Sprint(err))
			return
		}
		limit := int64(cfg.MaxMemory)
		ca, cb := s.NewTCPClient(inst, "a"), s.NewTCPClient(inst, "b")
		type evNote struct {
			key  string
			used int64
		}
		var notes []evNote
		var nmu sync.Mutex
		s.OnEvict = func(db int, key string, used int64, lim uint64) {
			nmu.Lock()
			notes = append(notes, evNote{key, used})
			nmu.Unlock()
		}
		volatile := strings.HasPrefix(policy, "volatile")
		invariants := func(i int, what string, before, after *sugardb.VerifState, removedByCmd map[string]bool, deadlineSet map[string]bool) {
			for _, n := range notes {
				if n.used < limit {
					fail("evicted-under-limit", fmt.Sprintf("op %d (%s): %s evicted with usage %d < limit %d", i, what, n.key, n.used, limit))
				}
			}
			for k, b := range before.DBs[0] {
				if _, still := after.DBs[0][k]; still || removedByCmd[k] {
					continue
				}
				o.Trivial = false
				if volatile && b.ExpireAt == 0 && !deadlineSet[k] {
					fail("evicted-non-candidate", fmt.Sprintf("op %d (%s): %s has no expiry but was evicted under %s", i, what, k, policy))
				}
			}
			for _, k := range after.Volatile[0] {
				if _, ok := after.DBs[0][k]; !ok {
					fail("residue/volatile-index", fmt.Sprintf("op %d (%s): %s is gone from the store but still in the volatile index", i, what, k))
				}
			}
			for name, heap := range map[string][]string{"lru": after.LRU[0], "lfu": after.LFU[0]} {
				for _, k := range heap {
					e, ok := after.DBs[0][k]
					if !ok {
						fail("residue/"+name, fmt.Sprintf("op %d (%s): %s is gone from the store but still in the %s heap", i, what, k, strings.ToUpper(name)))
					} else if volatile && e.ExpireAt == 0 {
						fail("non-candidate-in-heap/"+name, fmt.Sprintf("op %d (%s): %s has no expiry but sits in the %s candidate heap of policy %s", i, what, k, strings.ToUpper(name), policy))
					}
				}
			}
		}
		for i := 0; i < len(p.Ops) && o.Sig == ""; i++ {
			op := p.Ops[i]
			s.AdvanceSync(3 * time.Millisecond)
			before := inst.DB.VerifDump()
			nmu.Lock()
			notes = notes[:0]
			nmu.Unlock()
			removed, deadlined := map[string]bool{}, map[string]bool{}
			mark := func(a []string) {
				switch strings.ToUpper(a[0]) {
				case "DEL":
					removed[a[1]] = true
				case "EXPIRE":
					deadlined[a[1]] = true
				case "SET":
					if len(a) > 3 {
						deadlined[a[1]] = true
					}
				}
			}
			if op.Kind == "pairA" && i+1 < len(p.Ops) && p.Ops[i+1].Kind == "pairB" {
				opB := p.Ops[i+1]
				i++
				mark(op.Args)
				mark(opB.Args)
				what := strings.ToUpper(op.Args[0]) + "||" + strings.ToUpper(opB.Args[0])
				class = append(class, what)
				pending := 2
				cb2 := func(r Result) {
					pending--
					if r.Panic != "" {
						fail("panic/conc", r.Panic)
					}
				}
				ca.Start(op.Args, cb2)
				cb.Start(opB.Args, cb2)
				for st := 0; st < 3000 && o.Sig == ""; st++ {
					parked := s.ParkedTasks()
					if len(parked) == 0 {
						break
					}
					tk, stuck := PickFair(parked, dice.Next(len(parked)), 300)
					s.noteChoice(len(parked), tk.Site)
					if stuck {
						fail("livelock/"+tk.Site, fmt.Sprintf("%q || %q", op.Args, opB.Args))
						break
					}
					s.Release(tk)
				}
				s.DrainAll(3000)
				if pending > 0 {
					fail("conc/never-answered", fmt.Sprintf("%q || %q: %d command(s) never answered", op.Args, opB.Args, pending))
				}
				invariants(i, what, &before, ptrDump(inst.DB.VerifDump()), removed, deadlined)
				continue
			}
			if len(op.Args) == 0 {
				continue
			}
			mark(op.Args)
			class = append(class, strings.ToUpper(op.Args[0])+":"+op.Kind)
			if r := ca.DoSync(op.Args...); r.Panic != "" {
				fail("panic/"+strings.ToUpper(op.Args[0]), r.Panic)
				break
			}
			invariants(i, strings.Join(op.Args[:2], " "), &before, ptrDump(inst.DB.VerifDump()), removed, deadlined)
		}
		o.Stats = s.Stats
		o.Sched = s.schedHash
		o.Log = s.Log
	})
	if br.panicVal != nil && o.Sig == "" {
		o.Sig = "C08/" + policy + "/panic/" + topRepoFrame(br.stack)
		o.Detail = fmt.Sprintf("%v\n%s", br.panicVal, br.stack)
	}
	sort.Strings(class)
	o.Class = "conc|" + policy + "|" + strings.Join(class, ",")
	o.Sample = map[string]any{"policy": policy, "profile": "conc", "steps": class}
	return o
}

func ptrDump(d sugardb.VerifState) *sugardb.VerifState { return &d }
