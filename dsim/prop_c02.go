package dsim

// C02 — append-only log: acknowledged writes survive restart and crash.
// C09 — log rewrite is transparent and crash-atomic (same runner, REWRITEAOF in the workload).
//
// Oracle (model-free): the live instance's own dataset dump after every acknowledged
// command is the sequence S_0..S_n. A restore must reproduce S_j for an admissible j.

import (
	"fmt"
	"os"
	"path/filepath"
	"strconv"
	"strings"
	"sync/atomic"
	"testing"
	"time"

	"github.com/echovault/sugardb/verifhook"
)

func init() {
	register(&PropDef{
		ID: "C02",
		Rule: "plan = sync policy + caller/database choice + write workload of every family + clock advances + crash points (kill or power loss at the k-th file operation / hook inside a logged write, or at a command boundary) + 1-3 crash-recover-write-restart cycles; profile pairs (1 in 3): two blind writes to one key from two connections run concurrently under the dice, then kill + restart at once (log order must equal effect order); " +
			"non-trivial = at least one restore was checked after >=1 acknowledged write; distinct = hash of (policy, fault kind and site sequence, command-name sequence)",
		FlakySig: "C02/nondeterministic-replay",
		Gen:      func(r *Rng, tier string, idx int) *Plan { return genAOF(r, tier, idx, false) },
		Run:      func(t *testing.T, p *Plan) *Outcome { return runAOF(t, p, "C02") },
		Real:     []string{"aof.Engine", "aof/log.Store (Write/Sync/Restore/Truncate)", "aof/preamble.Store", "handleCommand logging path", "NewSugarDB restore path", "all write handlers", "OS file system (tmpfs)"},
		Stub:     []string{"durability: shadow model decides which un-synced bytes survive a power loss", "TCP sockets"},
		Assumptions: []string{
			"ordered-journal disk model: fsync makes all earlier writes to that file durable; un-synced appends survive as a prefix, last write possibly torn",
			"the live instance's dump after each acknowledged command defines the admissible restored states (no reference model)",
		},
	})
	register(&PropDef{
		ID: "C09",
		Rule: "C02's plan + REWRITEAOF at arbitrary positions (first, repeated, after crashes) + crash points at every file operation/hook of the rewrite + a concurrent writer whose keyspace steps are interleaved with the rewrite's steps by the dice; " +
			"non-trivial = at least one rewrite ran and a restore was checked; distinct = hash of (policy, fault site, interleaving, command-name sequence)",
		FlakySig:    "C09/nondeterministic-replay",
		Gen:         func(r *Rng, tier string, idx int) *Plan { return genAOF(r, tier, idx, true) },
		Run:         func(t *testing.T, p *Plan) *Outcome { return runAOF(t, p, "C09") },
		Real:        []string{"aof.Engine.RewriteLog", "preamble.Store.CreatePreamble/Restore", "log.Store.Truncate", "getState copy protocol", "all write handlers", "OS file system (tmpfs)"},
		Stub:        []string{"durability: shadow model", "TCP sockets", "goroutine scheduler choice"},
		Assumptions: []string{"same disk model as C02"},
	})
}

var dbChoices = []int64{0, 0, 0, 1, 2, 9, 10, 15, 123}

func genAOF(r *Rng, tier string, idx int, rewrite bool) *Plan {
	p := &Plan{Knobs: map[string]int64{}, SKnobs: map[string]string{}}
	p.Profile = "seq"
	p.SKnobs["sync"] = Pick(r, []string{"always", "always", "everysec", "no"})
	p.Knobs["tcpdb"] = Pick(r, dbChoices)
	p.Knobs["embdb"] = Pick(r, dbChoices)
	p.Knobs["callers"] = int64(r.Intn(3)) // 0 tcp only, 1 embedded only, 2 both
	g := &GenCfg{Keys: []string{"k1", "k2", "k3", "k4"}, Writes: true, NowMs: 946684800000}
	n := r.Range(3, 14)
	if tier == "thorough" {
		n = r.Range(3, 40)
	}
	cycles := r.Range(1, 3)
	pairs := !rewrite && idx%3 == 2
	if pairs {
		p.Profile = "pairs"
	}
	if rewrite && r.Chance(0.15) {
		p.Ops = append(p.Ops, Op{Kind: "rewrite"}) // rewrite on a fresh log
	}
	for cy := 0; cy < cycles; cy++ {
		for i := 0; i < n; i++ {
			switch {
			case r.Chance(0.08):
				p.Ops = append(p.Ops, Op{Kind: "advance", N: int64(Pick(r, []int{1, 10, 500, 999, 1000, 1001, 2500, 60000}))})
			case rewrite && r.Chance(0.15):
				if r.Chance(0.5) {
					// kill / power loss at the N-th file operation or hook of the rewrite; or (1 in 5) an I/O error there:
					// the rewrite fails or not, the server must go on serving writes (a repairing rewrite follows at once,
					// so that what the failed attempt left on disk stays out of this check)
					p.Ops = append(p.Ops, Op{Kind: "crash", N: int64(r.Intn(16)), S: Pick(r, []string{"kill", "power", "kill", "power", "eio"})})
				}
				p.Ops = append(p.Ops, Op{Kind: "rewrite"})
				if r.Chance(0.2) {
					p.Ops = append(p.Ops, Op{Kind: "rewrite"})
				}
			case !rewrite && r.Chance(0.1):
				// oskill: the process dies before the N-th mutating file-system operation of the command, whatever code
				// issues it (crash points of the instrumented package os, not of the hooks in the repository)
				p.Ops = append(p.Ops, Op{Kind: "crash", N: int64(r.Intn(8)), S: Pick(r, []string{"kill", "power", "kill", "power", "oskill"})})
				p.Ops = append(p.Ops, Op{C: r.Intn(2), Args: g.Cmd(r)})
			case !rewrite && !pairs && r.Chance(0.07):
				// an I/O error (EIO, ENOSPC, short write) at the k-th operation on the log file inside a write to a
				// dedicated key that no other command of the plan names
				p.Ops = append(p.Ops, Op{Kind: "crash", N: int64(r.Intn(3)), S: Pick(r, []string{"eio", "enospc", "short"})})
				p.Ops = append(p.Ops, Op{C: r.Intn(2), Args: []string{"SET", fmt.Sprintf("fk%d", len(p.Ops)), fmt.Sprintf("fv%d", len(p.Ops))}})
			case !rewrite && pairs && r.Chance(0.25):
				// two blind writes to the same key from two connections, run concurrently
				k := Pick(r, g.Keys)
				blind := func() []string {
					switch r.Intn(4) {
					case 0:
						return []string{"DEL", k}
					case 1:
						return []string{"MSET", k, Pick(r, defaultVals), Pick(r, g.Keys), Pick(r, defaultVals)}
					}
					return []string{"SET", k, Pick(r, defaultVals)}
				}
				c := r.Intn(2)
				p.Ops = append(p.Ops, Op{Kind: "pairA", C: c, Args: blind()}, Op{Kind: "pairB", C: c, Args: blind()})
			default:
				p.Ops = append(p.Ops, Op{C: r.Intn(2), Args: g.Cmd(r)})
			}
		}
		if r.Chance(0.2) {
			p.Ops = append(p.Ops, Op{Kind: "advance", N: int64(Pick(r, []int{1, 1000, 5000, 120000}))})
		}
		p.Ops = append(p.Ops, Op{Kind: "restart", S: Pick(r, []string{"clean", "kill", "power"})})
		n = r.Range(1, 8)
	}
	if rewrite && r.Chance(0.5) {
		p.Profile = "conc"
		// in a third of the concurrent plans the process is killed in the middle of a concurrent phase
		// (after the N-th scheduling step of the phase)
		if r.Chance(0.33) {
			for j := range p.Ops {
				if p.Ops[j].Kind == "rewrite" && r.Bool() {
					p.Ops[j].N = int64(r.Range(1, 40))
				}
			}
		} else if r.Chance(0.4) {
			// two connections ask for a rewrite at the same moment
			for j := range p.Ops {
				if p.Ops[j].Kind == "rewrite" && r.Chance(0.7) {
					p.Ops[j].S = "twin"
				}
			}
		}
	}
	p.Dice = drawDice(r, 96)
	return p
}

type aofRun struct {
	t        *testing.T
	p        *Plan
	prop     string
	s        *Sim
	dice     *Dice
	o        *Outcome
	root     string
	gen      int
	inst     *Instance
	disk     *Disk
	tcp, emb *Client
	tcpdb    int64
	embdb    int64
	// acknowledged states since the last recovery
	states                []map[string]string
	syncedUp              int // index of the last state known durable (log synced after it was acknowledged)
	names                 []string
	rewrites              int
	restores              int
	acked                 int
	minDl                 map[string]int64 // db/key -> earliest deadline it ever carried (acknowledged states)
	rewritesSinceRecovery int
	tainted               bool // the preamble on disk was written from a state holding JSON-lossy values
	crashSites            []string
	rewriteCrashSite      string          // set when a crash hit a REWRITEAOF in flight; cleared by the next completed rewrite
	randKeys              map[string]bool // db/key touched by a write command whose effect is random by design (SPOP)
	skipped               int
	hasRewrite            bool
	concWriters           bool              // a REWRITEAOF ran concurrently with writers since the last recovery
	pairProbe             bool              // the recovery in progress is the probe right after two concurrent blind writes
	unacked               map[string]string // db/key of a write answered with an error after an injected I/O error -> value it would have
	ioFault               string            // "<mode>@<site>" of the first injected I/O error of the run
}

var runCounter atomic.Int64

func scratchDir() string {
	d := os.Getenv("DSIM_SCRATCH")
	if d == "" {
		d = "/dev/shm/dsim-manual"
	}
	d = filepath.Join(d, fmt.Sprintf("w%s-%d", os.Getenv("DSIM_WORKER"), os.Getpid()))
	return d
}

func (a *aofRun) fail(sig, detail string) {
	if a.o.Sig == "" {
		a.o.Sig, a.o.Detail = a.prop+"/"+sig, detail
	}
}

func (a *aofRun) boot(dir string) bool {
	a.gen++
	cfg := BaseConfig
	cfg.DataDir = dir
	cfg.RestoreAOF = true
	cfg.AOFSyncStrategy = a.p.SK("sync")
	id := a.gen
	a.disk = a.s.NewDisk(dir, id, a.dice)
	a.s.WrapFile = func(path string, f verifhookFile, t *Task) verifhookFile { return a.disk.Wrap(path, f) }
	a.s.OnFault = nil
	disk := a.disk
	a.s.OnYieldOpp = func(site string, t *Task) {
		if t != nil && t.Inst == disk.Inst {
			_ = disk.opportunity(site)
		}
	}
	inst, err := a.s.Boot(id, cfg)
	harnessEnvCheck(err)
	if err != nil || inst.Panic != "" {
		if os.Getenv("DSIM_DEBUG_BOOT") != "" {
			lb, _ := os.ReadFile(filepath.Join(dir, "aof", "log.aof"))
			pb, _ := os.ReadFile(filepath.Join(dir, "aof", "preamble.bin"))
			fmt.Printf("BOOTFAIL log.aof (%d bytes): %q\nBOOTFAIL preamble.bin (%d bytes): %q\n", len(lb), lb, len(pb), pb)
		}
		a.fail("restore-error/boot", fmt.Sprintf("instance construction on the recovered directory failed: %v %s", err, inst.Panic))
		return false
	}
	a.inst = inst
	a.tcp = a.s.NewTCPClient(inst, fmt.Sprintf("g%dt", id))
	a.emb = a.s.NewEmbeddedClient(inst, fmt.Sprintf("g%de", id))
	if a.tcpdb != 0 {
		a.tcp.DoSync("SELECT", strconv.FormatInt(a.tcpdb, 10))
	}
	if a.embdb != 0 {
		_ = inst.DB.SelectDB(int(a.embdb))
	}
	return true
}

func (a *aofRun) dump() map[string]string {
	m := DataMap(a.inst.DB.VerifDump(), false)
	if a.minDl == nil {
		a.minDl = map[string]int64{}
	}
	for k, v := range m {
		if i := strings.LastIndex(v, " @"); i >= 0 {
			if ms, err := strconv.ParseInt(v[i+2:], 10, 64); err == nil {
				if old, ok := a.minDl[k]; !ok || ms < old {
					a.minDl[k] = ms
				}
			}
		}
	}
	return m
}

// avoidRewrite applies the avoid classes of open findings to a command: returns (args, skip).
func (a *aofRun) avoidRewrite(args []string) ([]string, bool) {
	name := strings.ToUpper(args[0])
	rel := name == "EXPIRE" || name == "PEXPIRE"
	abs := name == "EXPIREAT" || name == "PEXPIREAT"
	absIdx := -1
	if abs && len(args) > 2 {
		absIdx = 2
	}
	if name == "SET" || name == "GETEX" {
		for i := 2; i < len(args); i++ {
			switch strings.ToUpper(args[i]) {
			case "EX", "PX":
				rel = true
			case "EXAT", "PXAT":
				abs = true
				absIdx = i + 1
			}
		}
	}
	if a.hasRewrite && Avoiding(a.p, a.prop+"/retyped-by-preamble") {
		if sp := specByName[name]; sp != nil && (sp.Family == "list" || sp.Family == "set" || sp.Family == "zset") {
			return args, true
		}
		switch name {
		case "HINCRBY", "HINCRBYFLOAT", "INCRBYFLOAT":
			return args, true
		}
		for _, x := range args[1:] {
			if _, err := strconv.ParseFloat(strings.TrimSpace(x), 64); err == nil && !(name == "INCRBY" || name == "DECRBY" || name == "SETRANGE" || name == "GETEX" || strings.HasPrefix(name, "EXPIRE") || strings.HasPrefix(name, "PEXPIRE")) {
				if name == "SET" || name == "MSET" || name == "APPEND" || name == "HSET" || name == "HSETNX" {
					return args, true
				}
			}
		}
	}
	if name == "SPOP" && Avoiding(a.p, a.prop+"/nondeterministic-replay") {
		return args, true
	}
	if rel && Avoiding(a.p, a.prop+"/deadline-drift") {
		return args, true
	}
	if abs && absIdx > 0 && absIdx < len(args) && Avoiding(a.p, a.prop+"/expired-key-replay") {
		// keep the command but move the deadline out of reach of every clock advance of the plan
		if v, err := strconv.ParseInt(args[absIdx], 10, 64); err == nil {
			out := append([]string{}, args...)
			shift := int64(10000000)
			if name == "PEXPIREAT" || (absIdx > 0 && strings.ToUpper(args[absIdx-1]) == "PXAT") {
				shift *= 1000
			}
			out[absIdx] = strconv.FormatInt(v+shift, 10)
			return out, false
		}
	}
	return args, false
}

func nowMs() int64 { return time.Now().UnixMilli() + clockSkewMs.Load() }

// recover boots on image dir and checks the restored dataset against the admissible states.
// minIdx: lowest admissible index into a.states; extra: further admissible states (in-flight).
func (a *aofRun) recover(image string, minIdx int, extra []map[string]string, how string) bool {
	prev := a.states
	deadDump := a.inst.DB.VerifDump()
	_ = deadDump
	if !a.boot(image) {
		return false
	}
	a.restores++
	now := nowMs()
	got := StripExpired(a.inst.DB.VerifDump(), now, false)
	// a write that was answered with an error after an injected I/O error is not acknowledged: its own effect
	// may be present or absent after a restore (nothing else may differ). Its key is dedicated to it.
	for k, v := range a.unacked {
		if g, ok := got[k]; ok {
			if g != v {
				a.fail("io-error@"+a.ioFault+"/garbage", fmt.Sprintf("%s: key %s of the write that failed with an I/O error was restored as %s (it wrote %s)", how, k, g, v))
				return false
			}
			delete(got, k)
		}
	}
	strip := func(m map[string]string) map[string]string {
		out := map[string]string{}
		for k, v := range m {
			if _, un := a.unacked[k]; un {
				continue
			}
			if i := strings.LastIndex(v, " @"); i >= 0 {
				if ms, err := strconv.ParseInt(v[i+2:], 10, 64); err == nil && ms <= now {
					continue
				}
			}
			out[k] = v
		}
		return out
	}
	matched := -1
	for j := len(prev) - 1; j >= 0; j-- {
		if mapsEqual(strip(prev[j]), got) {
			matched = j
			break
		}
	}
	inflight := false
	for _, e := range extra {
		if mapsEqual(strip(e), got) {
			inflight = true
		}
	}
	if len(prev) > 1 || len(extra) > 0 {
		a.o.Trivial = false
	}
	if inflight || matched >= minIdx {
		a.states = []map[string]string{a.dump()}
		a.syncedUp = 0
		a.concWriters = false
		return true
	}
	want := prev[len(prev)-1]
	diff := DiffData(got, strip(want), "restored", "expected", 5)
	// known root causes are recognised against EVERY admissible state, not only the last one:
	// a difference on a key is "explained" when one of the lenses below accounts for it.
	cands := append([]map[string]string{}, extra...)
	for j := minIdx; j < len(prev); j++ {
		if j >= 0 {
			cands = append(cands, prev[j])
		}
	}
	if a.tainted {
		a.fail("retyped-by-preamble", fmt.Sprintf("%s: the preamble written by REWRITEAOF held values whose type does not survive its JSON encoding (numbers, lists, sets, sorted sets); restored dataset: %s", how, diff))
		return false
	}
	for _, c := range cands {
		if lens := a.explain(got, strip(c), now); lens != "" {
			a.fail(lens, fmt.Sprintf("%s: restored dataset differs from an admissible state only in ways explained by [%s] (sync=%s): %s", how, lens, a.p.SK("sync"), DiffData(got, strip(c), "restored", "expected", 5)))
			return false
		}
	}
	if a.ioFault != "" {
		what := "log-damaged"
		if matched >= 0 {
			what = "acked-lost"
		}
		a.fail("io-error@"+a.ioFault+"/"+what, fmt.Sprintf("%s: after an injected I/O error (%s) inside a logged write, acknowledged writes are not restored (restored = state #%d of %d the server passed through, admissible from #%d, sync=%s): %s", how, a.ioFault, matched, len(prev), minIdx, a.p.SK("sync"), diff))
		return false
	}
	if a.pairProbe {
		a.fail("log-order/"+strings.Fields(how)[0], fmt.Sprintf("%s: the restored dataset is not the one the server held after both commands were acknowledged (restored = state #%d of %d the server passed through): %s", how, matched, len(prev), diff))
		return false
	}
	if a.concWriters {
		what := "not-a-state"
		if matched >= 0 {
			what = "lost"
		}
		a.fail("concurrent-writer/"+what, fmt.Sprintf("%s: a write acknowledged while REWRITEAOF was running is not restored as acknowledged (restored = state #%d of %d the server passed through, admissible from #%d, sync=%s): %s", how, matched, len(prev), minIdx, a.p.SK("sync"), diff))
		return false
	}
	if a.rewriteCrashSite != "" {
		a.fail("rewrite-crash@"+a.rewriteCrashSite, fmt.Sprintf("%s: after a crash at %s during REWRITEAOF the data directory no longer restores to a state the server passed through (%d states, admissible from #%d, sync=%s): %s",
			how, a.rewriteCrashSite, len(prev), minIdx, a.p.SK("sync"), diff))
		return false
	}
	if matched >= 0 {
		a.fail(a.classify("missing-acked", how, got, strip(want)), fmt.Sprintf("%s: restored dataset equals the state after acknowledged write #%d but writes up to #%d were acknowledged and had to survive (sync=%s): %s", how, matched, len(prev)-1, a.p.SK("sync"), diff))
	} else {
		a.fail(a.classify("not-a-prefix", how, got, strip(want)), fmt.Sprintf("%s: restored dataset equals no state the server passed through since the last recovery (%d states, admissible from #%d): vs last acknowledged: %s", how, len(prev), minIdx, diff))
	}
	return false
}

// explain returns the name of the lens (known root cause) that accounts for ALL differences between
// got and want, or "" if some difference is not explained. When several lenses are needed the one
// that is not an open finding wins (so that a new root cause is never hidden behind a recorded one);
// among recorded ones the order is retyped > expired-key > deadline-drift > nondeterministic.
func (a *aofRun) explain(got, want map[string]string, now int64) string {
	body := func(v string) string {
		if i := strings.LastIndex(v, " @"); i >= 0 {
			return v[:i]
		}
		return v
	}
	keys := map[string]bool{}
	for k := range want {
		keys[k] = true
	}
	for k := range got {
		keys[k] = true
	}
	used := map[string]bool{}
	for k := range keys {
		g, w := got[k], want[k]
		if g == w {
			continue
		}
		switch {
		case g != "" && w != "" && body(g) == body(w):
			used["deadline-drift"] = true
		case a.randKeys[k]:
			used["nondeterministic-replay"] = true
		case a.hadDeadlinePassed(k, now):
			used["expired-key-replay"] = true
		case a.rewrites > 0 && g != "" && w != "" && jsonProjection(body(g)) == jsonProjection(body(w)):
			used["retyped-by-preamble"] = true
			if g[len(body(g)):] != w[len(body(w)):] {
				used["deadline-drift"] = true
			}
		default:
			return ""
		}
	}
	if len(used) == 0 {
		return ""
	}
	order := []string{"retyped-by-preamble", "expired-key-replay", "deadline-drift", "nondeterministic-replay"}
	for _, l := range order {
		if used[l] && !openSigs[a.prop+"/"+l] {
			return l
		}
	}
	for _, l := range order {
		if used[l] {
			return l
		}
	}
	return ""
}

func (a *aofRun) hadDeadlinePassed(k string, now int64) bool {
	dl, ok := a.minDl[k]
	return ok && dl <= now
}

// blameSite: among the crash sites hit during rewrites since the last completed rewrite, the earliest
// one that lies inside the replacement of the two files; if none does, the latest site.
func blameSite(sites []string) string {
	dangerous := map[string]bool{"aof.pre.write": true, "aof.pre.sync": true, "rewrite.after_preamble": true,
		"aof.log.truncate": true, "aof.log.write": true, "aof.log.sync": true}
	for _, s := range sites {
		if dangerous[s] {
			return s
		}
	}
	if len(sites) > 0 {
		return sites[len(sites)-1]
	}
	return ""
}

// lossy: does the dataset hold a value the JSON preamble/snapshot encoding of the pinned tree cannot represent?
func lossy(m map[string]string) bool {
	for _, v := range m {
		if jsonProjection(v) != v {
			return true
		}
	}
	return false
}

// jsonProjection maps a rendered entry to what survives a round trip through the JSON preamble/snapshot
// encoding of the pinned tree: numbers lose int/float distinction, lists become untyped arrays,
// sets and sorted sets become empty objects.
func jsonProjection(v string) string {
	dl := ""
	if i := strings.LastIndex(v, " @"); i >= 0 {
		dl = v[i:]
		v = v[:i]
	}
	switch {
	case strings.HasPrefix(v, "int:"):
		v = "num:" + v[4:]
	case strings.HasPrefix(v, "float:"):
		v = "num:" + v[6:]
	case strings.HasPrefix(v, "list:"), strings.HasPrefix(v, "other:[]interface"):
		v = "array"
	case strings.HasPrefix(v, "set:"), strings.HasPrefix(v, "zset:"):
		v = "hash:{}"
	case strings.HasPrefix(v, "hash:"):
		v = strings.ReplaceAll(strings.ReplaceAll(v, "=\"i:", "=\"n:"), "=\"f:", "=\"n:")
	}
	return v + dl
}

// classify refines the anomaly with what differs (wrong db, deadline drift, retyped, lost...)
func (a *aofRun) classify(anomaly, how string, got, want map[string]string) string {
	// expiry-related root causes get their own signatures (independent of the crash site)
	now := nowMs()
	allDeadline, allExpiring, ndiff := true, true, 0
	keys := map[string]bool{}
	for k := range want {
		keys[k] = true
	}
	for k := range got {
		keys[k] = true
	}
	body := func(v string) string {
		if i := strings.LastIndex(v, " @"); i >= 0 {
			return v[:i]
		}
		return v
	}
	for k := range keys {
		if got[k] == want[k] {
			continue
		}
		ndiff++
		if got[k] == "" || want[k] == "" || body(got[k]) != body(want[k]) {
			allDeadline = false
		}
		if dl, ok := a.minDl[k]; !ok || dl > now {
			allExpiring = false
		}
	}
	if ndiff > 0 && allDeadline {
		return "deadline-drift"
	}
	if ndiff > 0 && allExpiring {
		return "expired-key-replay"
	}
	kind := "data"
	for k, w := range want {
		g, ok := got[k]
		if ok && g != w {
			wi, gi := strings.LastIndex(w, " @"), strings.LastIndex(g, " @")
			wb, gb := w, g
			if wi >= 0 {
				wb = w[:wi]
			}
			if gi >= 0 {
				gb = g[:gi]
			}
			if wb == gb {
				kind = "deadline"
			} else if strings.SplitN(wb, ":", 2)[0] != strings.SplitN(gb, ":", 2)[0] {
				kind = "retyped:" + strings.SplitN(wb, ":", 2)[0] + "->" + strings.SplitN(gb, ":", 2)[0]
			}
			break
		}
		if !ok {
			// same key under another database?
			key := k[strings.IndexByte(k, '/')+1:]
			for gk := range got {
				if strings.HasSuffix(gk, "/"+key) && gk != k {
					if _, there := want[gk]; !there {
						kind = "wrong-db"
					}
				}
			}
		}
	}
	return anomaly + "/" + how + "/" + kind
}

type verifhookFile = verifhook.File

func isIOErrMode(m string) bool { return m == "eio" || m == "enospc" || m == "short" }

func runAOF(t *testing.T, p *Plan, prop string) *Outcome {
	o := &Outcome{Trivial: true}
	a := &aofRun{t: t, p: p, prop: prop, o: o}
	a.root = filepath.Join(scratchDir(), fmt.Sprintf("r%d", runCounter.Add(1)))
	_ = os.MkdirAll(a.root, 0o755)
	if os.Getenv("DSIM_KEEP") == "" {
		defer os.RemoveAll(a.root)
	} else {
		fmt.Println("KEEP", a.root)
	}
	br := RunBubble(t, func() {
		s := NewSim()
		s.logOn = true
		a.s = s
		s.install()
		defer s.uninstall()
		a.dice = p.NewDice()
		for _, op := range p.Ops {
			if op.Kind == "rewrite" {
				a.hasRewrite = true
			}
		}
		a.tcpdb, a.embdb = p.K("tcpdb"), p.K("embdb")
		dir := filepath.Join(a.root, "gen0")
		_ = os.MkdirAll(dir, 0o755)
		if !a.boot(dir) {
			return
		}
		a.states = []map[string]string{a.dump()}
		if p.Profile == "conc" {
			a.runConc()
		} else {
			a.runSeq()
		}
		o.Stats = s.Stats
		o.Log = s.Log
		o.Sched = s.schedHash
	})
	if br.panicVal != nil {
		o.Sig = prop + "/panic/" + topRepoFrame(br.stack)
		o.Detail = fmt.Sprintf("%v\n%s", br.panicVal, br.stack)
	}
	o.Skipped = a.skipped
	o.Class = p.SK("sync") + "|" + strings.Join(a.names, ",")
	o.Sample = map[string]any{"restores_checked": a.restores, "acked": a.acked, "rewrites": a.rewrites, "sync": p.SK("sync")}
	if prop == "C09" && a.rewrites == 0 {
		o.Trivial = true
	}
	return o
}

func (a *aofRun) client(op Op) *Client {
	switch a.p.K("callers") {
	case 0:
		return a.tcp
	case 1:
		return a.emb
	}
	if op.C%2 == 0 {
		return a.tcp
	}
	return a.emb
}

// nextImage returns a fresh directory path for the next generation's data dir.
func (a *aofRun) nextImage(from string) string {
	dst := filepath.Join(a.root, fmt.Sprintf("gen%d", a.gen))
	_ = os.RemoveAll(dst)
	_ = os.Rename(from, dst)
	return dst
}

func (a *aofRun) runSeq() {
	p := a.p
	var arm *Op
	for i := 0; i < len(p.Ops) && a.o.Sig == ""; i++ {
		op := p.Ops[i]
		switch op.Kind {
		case "advance":
			a.s.AdvanceSync(time.Duration(op.N) * time.Millisecond)
			a.names = append(a.names, "adv")
			// the everysec goroutine may have synced: everything acknowledged so far is durable if no pending ops remain
			if a.disk.PendingOps("aof/log.aof") == 0 {
				a.syncedUp = len(a.states) - 1
			}
		case "crash":
			c := op
			arm = &c
		case "restart":
			a.names = append(a.names, "restart:"+op.S)
			switch op.S {
			case "clean":
				a.inst.DB.ShutDown()
				a.s.Settle()
				img := filepath.Join(a.root, "clean.img")
				_ = os.RemoveAll(img)
				copyTree(a.disk.Dir, img)
				a.s.KillInstance(a.inst.ID)
				a.disk.CloseAll()
				if !a.recover(a.nextImage(img), len(a.states)-1, nil, "clean") {
					return
				}
			default:
				min := len(a.states) - 1
				if op.S == "power" && a.p.SK("sync") != "always" {
					min = a.syncedUp
				}
				if a.disk.PendingOps("aof/log.aof") == 0 {
					min = len(a.states) - 1
				}
				a.disk.CrashNow(op.S)
				if !a.recover(a.nextImage(a.disk.Image), min, nil, op.S) {
					return
				}
			}
		default: // command or rewrite
			args := op.Args
			if op.Kind == "pairA" && i+1 < len(p.Ops) && p.Ops[i+1].Kind == "pairB" && arm == nil {
				if !a.writePair(op, p.Ops[i+1]) {
					return
				}
				i++
				continue
			}
			if op.Kind == "pairA" || op.Kind == "pairB" {
				op.Kind = "" // its partner was shrunk away: an ordinary command
			}
			if op.Kind == "rewrite" && p.Profile == "conc" && arm == nil {
				n, ok := a.rewriteConc(i)
				if !ok {
					return
				}
				i += n
				continue
			}
			if op.Kind == "rewrite" {
				args = []string{"REWRITEAOF"}
				a.rewrites++
			}
			if len(args) == 0 {
				continue
			}
			if op.Kind == "" {
				var skip bool
				if args, skip = a.avoidRewrite(args); skip {
					a.skipped++
					continue
				}
			}
			a.names = append(a.names, strings.ToUpper(args[0]))
			c := a.client(op)
			if strings.ToUpper(args[0]) == "SPOP" && len(args) > 1 {
				if a.randKeys == nil {
					a.randKeys = map[string]bool{}
				}
				db := a.embdb
				if c.TCP {
					db = a.tcpdb
				}
				a.randKeys[fmt.Sprintf("%d/%s", db, args[1])] = true
			}
			mode := ""
			if arm != nil && isIOErrMode(arm.S) && op.Kind != "rewrite" && !(op.Kind == "" && len(args) == 3 && strings.HasPrefix(args[1], "fk")) {
				arm = nil // the dedicated write was shrunk away: no fault
			}
			if arm != nil {
				mode = arm.S
				if isIOErrMode(mode) && op.Kind == "rewrite" {
					a.disk.Arm(int(arm.N), arm.S, "aof.")
				} else if isIOErrMode(mode) {
					a.disk.Arm(int(arm.N), arm.S, "aof.log.")
				} else {
					a.disk.Arm(int(arm.N), arm.S, "")
				}
				arm = nil
			}
			before := len(a.states) - 1
			res := c.DoSync(args...)
			a.disk.Disarm()
			if a.disk.Fired && isIOErrMode(mode) && op.Kind == "rewrite" {
				if res.Panic != "" {
					a.fail("panic/"+topRepoFrame(res.Panic), fmt.Sprintf("%q: %s", args, res.Panic))
					return
				}
				a.names = append(a.names, "rewrite-ioerr:"+mode+"@"+a.disk.FiredAt)
				a.s.Probe("rewrite-io-error")
				if !a.afterFailedRewrite(mode+"@"+a.disk.FiredAt, res) {
					return
				}
				continue
			}
			if a.disk.Fired && isIOErrMode(mode) {
				a.names = append(a.names, "ioerr:"+mode+"@"+a.disk.FiredAt)
				if a.ioFault == "" {
					a.ioFault = mode + "@" + a.disk.FiredAt
				}
				if res.IsError() {
					// not acknowledged
					db := a.embdb
					if c.TCP {
						db = a.tcpdb
					}
					k := fmt.Sprintf("%d/%s", db, args[1])
					if a.unacked == nil {
						a.unacked = map[string]string{}
					}
					a.unacked[k] = a.dump()[k]
					a.s.Probe("ioerr-answered-with-error")
				} else {
					a.s.Probe("ioerr-acknowledged")
				}
			}
			if a.disk.Fired && (a.disk.Mode == "kill" || a.disk.Mode == "power" || a.disk.Mode == "oskill") {
				// crashed inside the command: the command was not acknowledged
				a.names = append(a.names, "crash:"+mode+"@"+a.disk.FiredAt)
				a.s.KillInstance(a.inst.ID)
				inflight := []map[string]string{DataMap(a.inst.DB.VerifDump(), false)}
				min := before
				if mode == "power" && a.p.SK("sync") != "always" {
					min = a.syncedUp
					if a.prop == "C09" && op.Kind == "rewrite" {
						min = a.syncedUp
					}
				}
				how := mode + "@" + a.disk.FiredAt
				if op.Kind == "rewrite" {
					a.crashSites = append(a.crashSites, a.disk.FiredAt)
					a.rewriteCrashSite = blameSite(a.crashSites)
					a.tainted = a.tainted || lossy(inflight[0])
				}
				if !a.recover(a.nextImage(a.disk.Image), min, inflight, how) {
					return
				}
				continue
			}
			if res.Panic != "" {
				a.fail("panic/"+topRepoFrame(res.Panic), fmt.Sprintf("%q: %s", args, res.Panic))
				return
			}
			if op.Kind == "rewrite" && res.IsError() {
				a.fail("rewrite-error", fmt.Sprintf("REWRITEAOF failed: %s %s", res.Err, res.Reply.Str))
				return
			}
			a.acked++
			if op.Kind == "rewrite" {
				a.rewriteCrashSite = "" // a completed rewrite replaces both files
				a.crashSites = nil
				a.tainted = lossy(a.dump())
			}
			a.states = append(a.states, a.dump())
			if a.p.SK("sync") == "always" || a.disk.PendingOps("aof/log.aof") == 0 {
				a.syncedUp = len(a.states) - 1
			}
		}
	}
}

func (a *aofRun) runConc() {
	// filled in by prop_c09.go
	a.runConcImpl()
}

// afterFailedRewrite: REWRITEAOF met an injected I/O error (it answered res). Whatever it answered, the server
// goes on serving writes - a write issued now is answered within the step budget - and a rewrite requested now
// succeeds. That second rewrite replaces both files, so what the failed attempt left on disk is not examined
// here (the crash-site findings of C09 are about exactly that).
func (a *aofRun) afterFailedRewrite(how string, res Result) bool {
	s := a.s
	wasSites, wasFilter, wasPass := s.sites, s.siteFilter, s.passAll.Load()
	s.sites, s.siteFilter = nil, nil
	s.passAll.Store(false)
	restore := func() {
		s.sites, s.siteFilter = wasSites, wasFilter
		s.passAll.Store(wasPass)
	}
	c := s.NewEmbeddedClient(a.inst, fmt.Sprintf("g%dprobe%d", a.gen, len(a.names)))
	key := fmt.Sprintf("fp%d", len(a.names))
	var pr *Result
	c.Start([]string{"SET", key, "v"}, func(r Result) { pr = &r })
	for step := 0; step < 3000 && pr == nil; step++ {
		parked := s.ParkedTasks()
		if len(parked) == 0 {
			s.Advance(time.Millisecond)
			s.Settle()
			if len(s.ParkedTasks()) == 0 && step > 50 {
				break
			}
			continue
		}
		tk, stuck := PickFair(parked, 0, 300)
		if stuck {
			restore()
			a.fail("livelock/"+tk.Site+"/after-failed-rewrite", fmt.Sprintf("REWRITEAOF met an injected I/O error (%s) and answered %s; the next write command spun %d times at %s and nothing else can change the flag it waits for", how, trunc(res.String(), 60), tk.Spins, tk.Site))
			return false
		}
		s.Release(tk)
	}
	s.DrainAll(2000)
	restore()
	if pr == nil {
		a.fail("write-never-answered/after-failed-rewrite", fmt.Sprintf("REWRITEAOF met an injected I/O error (%s) and answered %s; the next write command was never answered", how, trunc(res.String(), 60)))
		return false
	}
	if pr.Panic != "" {
		a.fail("panic/"+topRepoFrame(pr.Panic), pr.Panic)
		return false
	}
	rr := a.emb.DoSync("REWRITEAOF")
	if rr.Panic != "" {
		a.fail("panic/"+topRepoFrame(rr.Panic), rr.Panic)
		return false
	}
	if rr.IsError() {
		a.fail("rewrite-error/after-failed-rewrite", fmt.Sprintf("REWRITEAOF met an injected I/O error (%s); the next REWRITEAOF, without any fault, failed too: %s %s", how, rr.Err, rr.Reply.Str))
		return false
	}
	a.rewrites++
	a.acked++
	a.rewriteCrashSite = ""
	a.crashSites = nil
	a.tainted = lossy(a.dump())
	a.states = append(a.states, a.dump())
	if a.p.SK("sync") == "always" || a.disk.PendingOps("aof/log.aof") == 0 {
		a.syncedUp = len(a.states) - 1
	}
	return true
}
