package dsim

// C13 — read-only commands are pure.

import (
	"fmt"
	"strconv"
	"strings"
	"testing"
	"time"
)

func init() {
	register(&PropDef{
		ID: "C13",
		Rule: "plan = seeded datasets of all value types + every command the live command table marks read (and not write) with generated and mutated argument vectors, failing invocations of write commands, and store/move commands followed by a mutation of the destination (and of the source); oracle: the white-box dump of everything the command must not touch is identical before and after; profile readers (1 in 4): 2-3 read-only commands on shared keys (some expired but uncollected) run concurrently, every keyspace step and store-lock acquisition scheduled by the dice - the dataset must be unchanged and the replies those of some serial order; " +
			"non-trivial = the dataset was non-empty when the command ran; distinct = hash of the (command, argument-class) sequence",
		Gen:         genC13,
		Run:         runC13,
		Real:        []string{"all read handlers (set/sorted-set algebra, range, membership, hash, list, string readers)", "set.Union/Intersection/Subtract, sorted_set.Union/Intersect/Subtract", "keyspace getValues (touches caches only)", "command table categories"},
		Stub:        []string{"TCP sockets", "goroutine scheduler choice (readers profile)"},
		Assumptions: []string{"lazy removal of already-expired keys is allowed"},
	})
}

func genC13(r *Rng, tier string, idx int) *Plan {
	p := &Plan{Profile: "purity", Knobs: map[string]int64{}, SKnobs: map[string]string{}}
	if idx%8 == 5 {
		// readers next to ONE writer: 1-2 read-only commands and one write command on shared keys, some of them
		// expired but not yet collected; the dice schedule every keyspace step and store-lock acquisition.
		// Readers change nothing, so the final dataset must be the one the writer alone produces.
		p.Profile = "rw"
		g := &GenCfg{Keys: []string{"k1", "k2"}, NowMs: 946684800000, NoClock: true, NoRandom: true}
		p.Init = g.SeedOps(r, r.Range(2, 6))
		for _, k := range g.Keys {
			if r.Chance(0.6) {
				p.Init = append(p.Init, Op{Args: []string{"EXPIRE", k, "-10"}})
			}
		}
		n := r.Range(2, 3)
		p.Knobs["clients"] = int64(n)
		p.Knobs["tcp"] = int64(r.Intn(2))
		for c := 0; c < n-1; {
			a := g.Cmd(r)
			if r.Chance(0.4) {
				a = append([]string{"MGET"}, keysN(r, g, 1, 3)...)
			}
			if sp := specByName[strings.ToUpper(a[0])]; sp == nil || sp.Write || sp.Random || sp.Name == "TTL" || sp.Name == "PTTL" {
				continue
			}
			p.Ops = append(p.Ops, Op{C: c, Args: a})
			c++
		}
		k := Pick(r, g.Keys)
		var w []string
		switch r.Intn(5) {
		case 0:
			w = []string{"MSET", "k1", Pick(r, defaultVals), "k2", Pick(r, defaultVals)}
		case 1:
			w = []string{"RPUSH", k, "x"}
		case 2:
			w = []string{"SADD", k, "m"}
		default:
			w = []string{"SET", k, Pick(r, defaultVals)}
		}
		p.Ops = append(p.Ops, Op{Kind: "writer", C: n - 1, Args: w})
		p.Dice = drawDice(r, 64)
		return p
	}
	if idx%4 == 3 {
		// concurrent readers: 2-3 read-only commands on shared keys (some of them expired but not yet collected),
		// every keyspace step and store-lock acquisition scheduled by the dice
		p.Profile = "readers"
		g := &GenCfg{Keys: []string{"k1", "k2"}, NowMs: 946684800000, NoClock: true, NoRandom: true}
		p.Init = g.SeedOps(r, r.Range(2, 7))
		expireSome(r, p, g.Keys)
		n := r.Range(2, 3)
		p.Knobs["clients"] = int64(n)
		p.Knobs["tcp"] = int64(r.Intn(2))
		for c := 0; c < n; {
			a := g.Cmd(r)
			if sp := specByName[strings.ToUpper(a[0])]; sp == nil || sp.Write || sp.Random || sp.Name == "TTL" || sp.Name == "PTTL" {
				continue
			}
			p.Ops = append(p.Ops, Op{C: c, Args: a})
			c++
		}
		p.Dice = drawDice(r, 64)
		return p
	}
	g := &GenCfg{Keys: []string{"k1", "k2", "k3", "k4"}, NowMs: 946684800000, NoClock: true}
	p.Init = g.SeedOps(r, r.Range(3, 9))
	if r.Chance(0.3) {
		// large collections (implementations switch representation or cache above some size)
		big := func(n int, f func(i int) []string) []string {
			var out []string
			for i := 0; i < n; i++ {
				out = append(out, f(i)...)
			}
			return out
		}
		n := r.Range(33, 70)
		p.Init = append(p.Init,
			Op{Args: []string{"DEL", "k1", "k2", "k3", "k4"}},
			Op{Args: append([]string{"ZADD", "k1"}, big(n, func(i int) []string { return []string{strconv.Itoa(i % 7), fmt.Sprintf("m%02d", i)} })...)},
			Op{Args: append([]string{"SADD", "k2"}, big(n, func(i int) []string { return []string{fmt.Sprintf("m%02d", i)} })...)},
			Op{Args: append([]string{"HSET", "k3"}, big(n, func(i int) []string { return []string{fmt.Sprintf("f%02d", i), strconv.Itoa(i)} })...)},
			Op{Args: append([]string{"RPUSH", "k4"}, big(n, func(i int) []string { return []string{fmt.Sprintf("e%02d", i)} })...)})
		p.Knobs["big"] = 1
	}
	n := r.Range(4, 20)
	if tier == "thorough" {
		n = r.Range(4, 50)
	}
	for i := 0; i < n; i++ {
		switch x := r.Intn(100); {
		case x < 60:
			// any generated command; the runner decides from the live command table whether it is read-only
			a := g.Cmd(r)
			if p.Knobs["big"] == 1 && r.Chance(0.35) {
				cnt := strconv.Itoa(Pick(r, []int{1, 5, 10, 31, 32, 33, 100, -5, -100}))
				a = Pick(r, [][]string{{"ZRANDMEMBER", "k1", cnt}, {"ZRANDMEMBER", "k1", cnt, "WITHSCORES"}, {"SRANDMEMBER", "k2", cnt}, {"HRANDFIELD", "k3", cnt},
					{"ZRANGE", "k1", "0", "-1", "REV"}, {"ZREVRANK", "k1", "m05"}, {"ZRANGE", "k1", "0", "-1"}, {"LRANGE", "k4", "-100", "100"}, {"HGETALL", "k3"}, {"SMEMBERS", "k2"}, {"ZCARD", "k1"}})
			}
			if r.Chance(0.3) {
				a = mutateArgs(r, a)
			}
			p.Ops = append(p.Ops, Op{C: r.Intn(2), Args: a})
		case x < 85:
			st := Pick(r, []string{"SUNIONSTORE", "SINTERSTORE", "SDIFFSTORE", "SMOVE", "LMOVE", "LMOVE", "RENAME", "ZUNIONSTORE", "ZDIFFSTORE", "ZRANGESTORE"})
			a := specByName[st].Gen(r, g)
			if st == "LMOVE" && len(a) > 2 && r.Chance(0.7) {
				// both lists exist, and the source grew over several pushes, so that it has spare capacity behind
				// its last element: the state in which a sub-slice handed to the destination is silently shared
				src, dst := a[1], a[2]
				if src == dst {
					for _, k := range g.Keys {
						if k != src {
							dst = k
						}
					}
					a[2] = dst
				}
				c := r.Intn(2)
				p.Ops = append(p.Ops, Op{C: c, Args: []string{"DEL", src, dst}})
				p.Ops = append(p.Ops, Op{C: c, Args: append([]string{"RPUSH", src}, mems(r, 1, 4)...)})
				for j, m := 0, r.Range(1, 3); j < m; j++ {
					p.Ops = append(p.Ops, Op{C: c, Args: []string{Pick(r, []string{"RPUSH", "RPUSH", "LPUSH"}), src, fmt.Sprintf("g%d", j)}})
				}
				p.Ops = append(p.Ops, Op{C: c, Args: append([]string{"RPUSH", dst}, mems(r, 1, 2)...)})
			}
			p.Ops = append(p.Ops, Op{Kind: "alias", C: r.Intn(2), Args: a, N: int64(r.Intn(2))})
		default:
			p.Ops = append(p.Ops, Op{C: r.Intn(2), Args: g.SeedOps(r, 1)[0].Args})
		}
	}
	return p
}

func runC13(t *testing.T, p *Plan) *Outcome {
	if p.Profile == "readers" {
		return runConcCore(t, p, "C13")
	}
	if p.Profile == "rw" {
		return runC13RW(t, p)
	}
	o := &Outcome{Trivial: true}
	var classes []string
	fail := func(sig, detail string) {
		if o.Sig == "" {
			o.Sig, o.Detail = "C13/"+sig, detail
		}
	}
	br := RunBubble(t, func() {
		s := NewSim()
		s.install()
		defer s.uninstall()
		inst, err := s.Boot(1, BaseConfig)
		if err != nil {
			fail("boot-failed", fmt.Sprint(err))
			return
		}
		cl := []*Client{s.NewTCPClient(inst, "t"), s.NewEmbeddedClient(inst, "e")}
		for _, op := range p.Init {
			cl[1].DoSync(op.Args...)
		}
		// read-only according to the LIVE command table
		readOnly := map[string]bool{}
		if r := cl[1].DoSync("COMMAND", "LIST", "FILTERBY", "ACLCAT", "read"); !r.IsError() {
			for _, e := range r.Reply.Elems {
				readOnly[strings.ToUpper(e.Text())] = true
			}
		}
		if r := cl[1].DoSync("COMMAND", "LIST", "FILTERBY", "ACLCAT", "write"); !r.IsError() {
			for _, e := range r.Reply.Elems {
				delete(readOnly, strings.ToUpper(e.Text()))
			}
		}
		if len(readOnly) == 0 {
			fail("harness/no-command-table", "COMMAND LIST FILTERBY ACLCAT read returned nothing")
			return
		}
		// removal of already-expired keys is not a change: they are stripped on both sides
		data := func() map[string]string { return StripExpired(inst.DB.VerifDump(), time.Now().UnixMilli(), false) }
		for i, op := range p.Ops {
			if o.Sig != "" {
				break
			}
			name := strings.ToUpper(op.Args[0])
			before := data()
			if len(before) > 0 {
				o.Trivial = false
			}
			if op.Kind == "alias" {
				r := cl[op.C%2].DoSync(op.Args...)
				if r.Panic != "" || r.IsError() {
					classes = append(classes, name+":alias-failed")
					if after := data(); r.IsError() && !mapsEqual(before, after) {
						fail("state-changed-on-error/"+name, fmt.Sprintf("op %d %q failed (%s) but changed the dataset: %s", i, op.Args, r, DiffData(before, after, "before", "after", 4)))
					}
					continue
				}
				classes = append(classes, name+":alias")
				keys := CmdKeys(op.Args)
				if len(keys) < 2 {
					continue
				}
				dst, srcs := keys[0], keys[1:]
				if name == "SMOVE" || name == "LMOVE" || name == "RENAME" {
					dst, srcs = keys[1], keys[:1]
				}
				mid := data()
				victim := dst
				if op.N == 1 {
					victim = srcs[0]
				}
				// mutate one side in place with a command of the right family
				var muts [][]string
				e := mid["0/"+victim]
				switch {
				case strings.HasPrefix(e, "set:"):
					muts = [][]string{{"SADD", victim, "alias-probe"}, {"SREM", victim, "a", "b", "c"}}
				case strings.HasPrefix(e, "zset:"):
					muts = [][]string{{"ZADD", victim, "99", "alias-probe"}, {"ZINCRBY", victim, "7", "a"}}
				case strings.HasPrefix(e, "list:"):
					muts = [][]string{{"RPUSH", victim, "alias-probe"}, {"LSET", victim, "0", "alias-probe2"}, {"LPUSH", victim, "alias-probe3"}, {"LSET", victim, "-1", "alias-probe4"}}
				case strings.HasPrefix(e, "hash:"):
					muts = [][]string{{"HSET", victim, "alias-probe", "1"}}
				default:
					continue
				}
				for _, mut := range muts {
					if mr := cl[op.C%2].DoSync(mut...); mr.IsError() || mr.Panic != "" {
						continue
					}
					after := data()
					for k, v := range mid {
						if k == "0/"+victim {
							continue
						}
						if after[k] != v {
							fail("alias/"+name, fmt.Sprintf("op %d: after %q, changing %s with %q also changed %s: %s -> %s (destination and source share structure)", i, op.Args, victim, mut, k, trunc(v, 120), trunc(after[k], 120)))
							break
						}
					}
				}
				continue
			}
			r := cl[op.C%2].DoSync(op.Args...)
			if r.Panic != "" {
				fail("panic/"+name, r.Panic)
				break
			}
			after := data()
			switch {
			case readOnly[name]:
				classes = append(classes, name+":read")
				if !mapsEqual(before, after) {
					fail("operand-mutated/"+name, fmt.Sprintf("op %d read-only %q (reply %s) changed the dataset: %s", i, op.Args, trunc(r.String(), 80), DiffData(before, after, "before", "after", 4)))
				}
			case r.IsError():
				classes = append(classes, name+":failed")
				if !mapsEqual(before, after) {
					fail("state-changed-on-error/"+name, fmt.Sprintf("op %d %q failed (%s) but changed the dataset: %s", i, op.Args, r, DiffData(before, after, "before", "after", 4)))
				}
			default:
				classes = append(classes, name+":write")
			}
		}
		o.Stats = s.Stats
	})
	if br.panicVal != nil && o.Sig == "" {
		o.Sig = "C13/panic/" + topRepoFrame(br.stack)
		o.Detail = fmt.Sprintf("%v\n%s", br.panicVal, br.stack)
	}
	o.Class = strings.Join(classes, ",")
	o.Sample = map[string]any{"classes": classes}
	return o
}

// runC13RW: readers next to one writer (profile rw). The concurrent run's final dataset is compared with that of a
// twin instance on which only the write command ran: read-only commands change nothing, whatever the interleaving.
func runC13RW(t *testing.T, p *Plan) *Outcome {
	o := &Outcome{}
	var names []string
	fail := func(sig, detail string) {
		if o.Sig == "" {
			o.Sig, o.Detail = "C13/"+sig, detail
		}
	}
	br := RunBubble(t, func() {
		s := NewSim()
		s.logOn = true
		s.install()
		defer s.uninstall()
		dice := p.NewDice()
		n := int(p.K("clients"))
		boot := func(id int) (*Instance, []*Client) {
			inst, err := s.Boot(id, BaseConfig)
			if err != nil {
				return nil, nil
			}
			seed := s.NewEmbeddedClient(inst, "seed")
			for _, op := range p.Init {
				seed.DoSync(op.Args...)
			}
			cs := make([]*Client, n)
			for i := range cs {
				if p.K("tcp") == 1 && i == 0 {
					cs[i] = s.NewTCPClient(inst, fmt.Sprintf("i%dc%d", id, i))
				} else {
					cs[i] = s.NewEmbeddedClient(inst, fmt.Sprintf("i%dc%d", id, i))
				}
			}
			return inst, cs
		}
		inst, cs := boot(1)
		if inst == nil {
			fail("boot-failed", "instance construction failed")
			return
		}
		pending := 0
		for _, op := range p.Ops {
			op := op
			names = append(names, strings.ToUpper(op.Args[0]))
			pending++
			cs[op.C%n].Start(op.Args, func(r Result) {
				pending--
				if r.Panic != "" {
					fail("panic/"+strings.ToUpper(op.Args[0]), r.Panic)
				}
			})
		}
		for step := 0; step < 3000 && o.Sig == ""; step++ {
			parked := s.ParkedTasks()
			if len(parked) == 0 {
				break
			}
			tk, stuck := PickFair(parked, dice.Next(len(parked)), 300)
			s.noteChoice(len(parked), tk.Site)
			if stuck {
				fail("livelock/"+tk.Site, fmt.Sprintf("task t%d spun %d times at %s", tk.ID, tk.Spins, tk.Site))
				return
			}
			s.Release(tk)
		}
		if pending > 0 && o.Sig == "" {
			fail("rw/never-answered", fmt.Sprintf("%d of the commands %v were never answered", pending, opsStrings(p.Ops)))
			return
		}
		s.DrainAll(2000)
		got := StripExpired(inst.DB.VerifDump(), nowMs(), false)
		o.Stats = s.Stats
		o.Sched = s.schedHash
		o.Log = s.Log
		s.KillInstance(1)
		// the twin: same seeding, only the writer(s)
		twin, tcs := boot(2)
		if twin == nil {
			return
		}
		for _, op := range p.Ops {
			if op.Kind == "writer" {
				tcs[op.C%n].DoSync(op.Args...)
			}
		}
		want := StripExpired(twin.DB.VerifDump(), nowMs(), false)
		s.KillInstance(2)
		if !mapsEqual(got, want) {
			fail("reader-changed-data/rw", fmt.Sprintf("commands %v run concurrently: the final dataset differs from the one the write command alone produces, so a read-only command changed something: %s", opsStrings(p.Ops), DiffData(got, want, "concurrent", "writer-only", 4)))
		}
	})
	if br.panicVal != nil && o.Sig == "" {
		o.Sig = "C13/panic/" + topRepoFrame(br.stack)
		o.Detail = fmt.Sprintf("%v\n%s", br.panicVal, br.stack)
	}
	o.Trivial = o.Stats.MultiChoice == 0
	o.Class = "rw|" + strings.Join(names, "+")
	o.Sample = map[string]any{"profile": "rw", "commands": names}
	return o
}
