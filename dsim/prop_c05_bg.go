package dsim

// C05, profile "bg": ONE client issues 1-3 write commands while the background expiry pass (woken by a clock
// advance), a SAVE and/or a REWRITEAOF run next to it, every keyspace step, store-lock acquisition, ticker body,
// state-copy step and busy-wait iteration scheduled by the dice; part of the seeded keys are expired but not yet
// collected. The background tasks write nothing a client can observe, so the final dataset must be the one the
// write commands alone produce on a twin instance (where the background work ran to completion beforehand).

import (
	"fmt"
	"os"
	"path/filepath"
	"strings"
	"testing"
	"time"
)

func genC05BG(r *Rng, tier string, p *Plan) *Plan {
	p.Profile = "bg"
	p.SKnobs["policy"] = Pick(r, []string{"noeviction", "noeviction", "volatile-lru", "allkeys-lfu"})
	g := &GenCfg{Keys: []string{"k1", "k2", "k3"}, NoRandom: true, NoClock: true, Writes: true, NoFlush: true, NowMs: 946684800000}
	p.Init = g.SeedOps(r, r.Range(2, 6))
	for _, k := range g.Keys {
		if r.Chance(0.7) {
			p.Init = append(p.Init, Op{Args: []string{"EXPIRE", k, "-10"}})
		}
	}
	for i, n := 0, r.Range(1, 3); i < n; {
		a := g.Cmd(r)
		if nm := strings.ToUpper(a[0]); strings.HasPrefix(nm, "SINTER") || strings.HasPrefix(nm, "SUNION") || strings.HasPrefix(nm, "SDIFF") {
			continue // these answer differently from one execution to the next when an operand has the wrong type (Go map iteration)
		}
		p.Ops = append(p.Ops, Op{C: 0, Args: a})
		i++
	}
	p.Knobs["sampler"] = int64(r.Intn(4)) // 0: no tick; else a tick is woken before the commands start
	p.Knobs["save"] = int64(r.Intn(3))    // 1: SAVE runs next to the writer
	p.Knobs["rewrite"] = int64(r.Intn(3)) // 1: REWRITEAOF runs next to the writer
	p.Dice = drawDice(r, 192)
	return p
}

func runC05BG(t *testing.T, p *Plan) *Outcome {
	o := &Outcome{}
	root := filepath.Join(scratchDir(), fmt.Sprintf("r%d", runCounter.Add(1)))
	_ = os.MkdirAll(root, 0o755)
	defer os.RemoveAll(root)
	fail := func(sig, detail string) {
		if o.Sig == "" {
			o.Sig, o.Detail = "C05/"+sig, detail
		}
	}
	var names []string
	br := RunBubble(t, func() {
		s := NewSim()
		s.logOn = true
		s.install()
		defer s.uninstall()
		dice := p.NewDice()
		boot := func(id int, dir string) *Instance {
			cfg := BaseConfig
			cfg.DataDir = dir
			cfg.AOFSyncStrategy = "no"
			cfg.EvictionPolicy = p.SK("policy")
			cfg.EvictionInterval = 100 * time.Millisecond
			inst, err := s.Boot(id, cfg)
			if err != nil {
				return nil
			}
			seed := s.NewEmbeddedClient(inst, "seed")
			for _, op := range p.Init {
				seed.DoSync(op.Args...)
			}
			return inst
		}
		inst := boot(1, filepath.Join(root, "a"))
		if inst == nil {
			fail("boot-failed", "instance construction failed")
			return
		}
		writer := s.NewEmbeddedClient(inst, "w")
		// ---- wake the background expiry pass: its tick and per-database goroutines stay parked for the dice
		if p.K("sampler") > 0 {
			s.Advance(100 * time.Millisecond)
			s.Settle()
		}
		pending := 0
		var acked []string
		next := 0
		startNext := func() {
			if next >= len(p.Ops) {
				return
			}
			op := p.Ops[next]
			next++
			pending++
			names = append(names, strings.ToUpper(op.Args[0]))
			writer.Start(op.Args, func(r Result) {
				pending--
				if r.Panic != "" {
					fail("panic/"+strings.ToUpper(op.Args[0]), r.Panic)
				}
				acked = append(acked, r.String())
			})
		}
		startNext()
		bgPending := 0
		if p.K("save") == 1 {
			bgPending++
			names = append(names, "||SAVE")
			s.NewEmbeddedClient(inst, "saver").Start([]string{"SAVE"}, func(r Result) { bgPending-- })
		}
		if p.K("rewrite") == 1 {
			bgPending++
			names = append(names, "||REWRITEAOF")
			s.NewEmbeddedClient(inst, "rewriter").Start([]string{"REWRITEAOF"}, func(r Result) { bgPending-- })
		}
		for step := 0; step < 6000 && o.Sig == ""; step++ {
			if pending == 0 && next < len(p.Ops) {
				startNext()
			}
			parked := s.ParkedTasks()
			if len(parked) == 0 {
				if pending == 0 && next >= len(p.Ops) {
					break
				}
				s.Advance(time.Millisecond)
				s.Settle()
				if len(s.ParkedTasks()) == 0 && step > 100 {
					break
				}
				continue
			}
			tk, stuck := PickFair(parked, dice.Next(len(parked)), 400)
			s.noteChoice(len(parked), tk.Site)
			if stuck {
				fail("livelock/"+tk.Site, fmt.Sprintf("writer %v next to the background work: every parked task only re-tests a busy-wait flag (%s spun %d times)", opsStrings(p.Ops), tk.Site, tk.Spins))
				return
			}
			s.Release(tk)
		}
		s.DrainAll(6000)
		if (pending > 0 || next < len(p.Ops)) && o.Sig == "" {
			fail("bg/never-answered", fmt.Sprintf("write commands %v next to the background work: %d never answered", opsStrings(p.Ops), pending+len(p.Ops)-next))
			return
		}
		now := nowMs()
		got := StripExpired(inst.DB.VerifDump(), now, false)
		o.Stats = s.Stats
		o.Sched = s.schedHash
		o.Log = s.Log
		s.KillInstance(1)
		// ---- twin: same seeding, background work done before the commands, commands alone
		// (some handlers iterate over Go maps: the same commands can answer differently from one execution to the
		// next, so the twin is repeated; the run with background work only has to agree with one of them)
		var want map[string]string
		var twinAcked []string
		for rep := 0; rep < 8; rep++ {
			twin := boot(2+rep, filepath.Join(root, fmt.Sprintf("b%d", rep)))
			if twin == nil {
				return
			}
			tw := s.NewEmbeddedClient(twin, "w")
			twinAcked = nil
			for _, op := range p.Ops {
				twinAcked = append(twinAcked, tw.DoSync(op.Args...).String())
			}
			want = StripExpired(twin.DB.VerifDump(), now, false)
			s.KillInstance(2 + rep)
			if mapsEqual(got, want) && strings.Join(acked, "|") == strings.Join(twinAcked, "|") {
				break
			}
		}
		if !mapsEqual(got, want) {
			fail("background-changed-data", fmt.Sprintf("write commands %v with the background expiry pass / SAVE / REWRITEAOF (%v) running next to them: the final dataset differs from the one the commands alone produce: %s", opsStrings(p.Ops), names, DiffData(got, want, "with background work", "commands alone", 4)))
		} else if strings.Join(acked, "|") != strings.Join(twinAcked, "|") {
			fail("background-changed-replies", fmt.Sprintf("write commands %v next to the background work answered %v, alone they answer %v", opsStrings(p.Ops), acked, twinAcked))
		}
	})
	if br.panicVal != nil && o.Sig == "" {
		o.Sig = "C05/panic/" + topRepoFrame(br.stack)
		o.Detail = fmt.Sprintf("%v\n%s", br.panicVal, br.stack)
	}
	o.Trivial = o.Stats.MultiChoice == 0
	o.Class = "bg|" + strings.Join(names, "+")
	o.Sample = map[string]any{"profile": "bg", "commands": names}
	return o
}
