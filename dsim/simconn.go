package dsim

// simconn: an in-memory net.Conn pair with TCP-like byte-stream semantics.
// Blocking uses channels only, so a blocked reader is "durably blocked" for synctest.

import (
	"errors"
	"io"
	"net"
	"os"
	"sync"
	"time"
)

type pipeHalf struct {
	mu       sync.Mutex
	buf      []byte
	closed   bool // writer closed: reader gets EOF after draining
	reset    bool
	notify   chan struct{} // cap 1
	deadline time.Time     // read deadline (fake clock)
	dlNotify chan struct{}
}

func newHalf() *pipeHalf {
	return &pipeHalf{notify: make(chan struct{}, 1), dlNotify: make(chan struct{}, 1)}
}

func (h *pipeHalf) signal() {
	select {
	case h.notify <- struct{}{}:
	default:
	}
}

type SimConn struct {
	rd, wr    *pipeHalf
	name      string
	localAddr simAddr
	closeOnce sync.Once
}

type simAddr string

func (a simAddr) Network() string { return "sim" }
func (a simAddr) String() string  { return string(a) }

// NewConnPair returns (client side, server side).
func NewConnPair(name string) (*SimConn, *SimConn) {
	a, b := newHalf(), newHalf()
	c := &SimConn{rd: a, wr: b, name: name + ":client", localAddr: simAddr(name + ":c")}
	s := &SimConn{rd: b, wr: a, name: name + ":server", localAddr: simAddr(name + ":s")}
	return c, s
}

func (c *SimConn) Read(p []byte) (int, error) {
	for {
		c.rd.mu.Lock()
		if c.rd.reset {
			c.rd.mu.Unlock()
			return 0, errors.New("connection reset by peer")
		}
		if len(c.rd.buf) > 0 {
			n := copy(p, c.rd.buf)
			c.rd.buf = c.rd.buf[n:]
			c.rd.mu.Unlock()
			return n, nil
		}
		if c.rd.closed {
			c.rd.mu.Unlock()
			return 0, io.EOF
		}
		dl := c.rd.deadline
		c.rd.mu.Unlock()
		if !dl.IsZero() {
			d := time.Until(dl)
			if d <= 0 {
				return 0, os.ErrDeadlineExceeded
			}
			tm := time.NewTimer(d)
			select {
			case <-c.rd.notify:
				tm.Stop()
			case <-c.rd.dlNotify:
				tm.Stop()
			case <-tm.C:
			}
			continue
		}
		select {
		case <-c.rd.notify:
		case <-c.rd.dlNotify:
		}
	}
}

func (c *SimConn) Write(p []byte) (int, error) {
	c.wr.mu.Lock()
	if c.wr.closed || c.wr.reset {
		c.wr.mu.Unlock()
		return 0, errors.New("write on closed connection")
	}
	c.wr.buf = append(c.wr.buf, p...)
	c.wr.mu.Unlock()
	c.wr.signal()
	return len(p), nil
}

// Close closes both directions (like closing a socket).
func (c *SimConn) Close() error {
	c.closeOnce.Do(func() {
		c.wr.mu.Lock()
		c.wr.closed = true
		c.wr.mu.Unlock()
		c.wr.signal()
		c.rd.mu.Lock()
		c.rd.closed = true
		c.rd.mu.Unlock()
		c.rd.signal()
	})
	return nil
}

// Reset aborts the connection in both directions.
func (c *SimConn) Reset() {
	for _, h := range []*pipeHalf{c.rd, c.wr} {
		h.mu.Lock()
		h.reset = true
		h.mu.Unlock()
		h.signal()
	}
}

func (c *SimConn) LocalAddr() net.Addr  { return c.localAddr }
func (c *SimConn) RemoteAddr() net.Addr { return c.localAddr }
func (c *SimConn) SetDeadline(t time.Time) error {
	return c.SetReadDeadline(t)
}
func (c *SimConn) SetReadDeadline(t time.Time) error {
	c.rd.mu.Lock()
	c.rd.deadline = t
	c.rd.mu.Unlock()
	select {
	case c.rd.dlNotify <- struct{}{}:
	default:
	}
	return nil
}
func (c *SimConn) SetWriteDeadline(t time.Time) error { return nil }

// Pending returns (without consuming) the bytes readable on this side.
func (c *SimConn) Pending() []byte {
	c.rd.mu.Lock()
	defer c.rd.mu.Unlock()
	return append([]byte(nil), c.rd.buf...)
}

// Take consumes and returns everything readable on this side without blocking.
func (c *SimConn) Take() []byte {
	c.rd.mu.Lock()
	defer c.rd.mu.Unlock()
	b := c.rd.buf
	c.rd.buf = nil
	return b
}

// PeerClosed reports whether the other side has closed.
func (c *SimConn) PeerClosed() bool {
	c.rd.mu.Lock()
	defer c.rd.mu.Unlock()
	return c.rd.closed || c.rd.reset
}
