package dsim

// Worker / replay / witness entry points. The binary is a test binary only because
// testing/synctest needs a *testing.T; it is driven by /verif/check through env vars.

import (
	"encoding/json"
	"fmt"
	"io"
	"log"
	"math/rand"
	"os"
	"path/filepath"
	"runtime"
	"sort"
	"strconv"
	"strings"
	"sync/atomic"
	"syscall"
	"testing"
	"time"
)

type PropDef struct {
	ID   string
	Rule string // how cases are generated and what makes one non-trivial / distinct
	// Gen draws one plan. profile index lets a property rotate through sub-profiles.
	Gen func(r *Rng, tier string, idx int) *Plan
	Run func(t *testing.T, p *Plan) *Outcome
	// Components: which parts ran real code and which ran a stub (for the evidence file)
	// FlakySig: signature given to a violation that does not reproduce when the same plan is re-run
	// (for the replay-based properties that means a command whose effect is not a function of the log);
	// empty = such runs are counted as inconclusive and never reported.
	FlakySig    string
	Real, Stub  []string
	Assumptions []string
}

var registry = map[string]*PropDef{}

func register(d *PropDef) { registry[d.ID] = d }

// ---- known findings ----------------------------------------------------------

type Finding struct {
	Property  string `json:"property"`
	Signature string `json:"signature"`
	Status    string `json:"status"` // open | fixed
	What      string `json:"what"`
	Witness   string `json:"witness,omitempty"`
	Commit    string `json:"commit,omitempty"`
}

type findingsFile struct {
	Findings []Finding `json:"findings"`
}

var findings []Finding
var openSigs = map[string]bool{}

func loadFindings() {
	path := os.Getenv("DSIM_FINDINGS")
	if path == "" {
		path = "/verif/KNOWN_FINDINGS.json"
	}
	b, err := os.ReadFile(path)
	if err != nil {
		return
	}
	var f findingsFile
	if err := json.Unmarshal(b, &f); err != nil {
		fmt.Fprintf(os.Stderr, "HARNESS: cannot parse %s: %v\n", path, err)
		os.Exit(2)
	}
	findings = f.Findings
	for _, x := range findings {
		if x.Status == "open" {
			openSigs[x.Signature] = true
		}
	}
}

// Avoiding reports whether sig names an open finding whose input class the
// generators/runners should stay away from (never true for witness plans).
func Avoiding(p *Plan, sig string) bool {
	if p.NoAvoid && lastComp(sig) == lastComp(p.ExpectSig) {
		return false // a witness exercises its own finding's input class; the other open findings stay avoided
	}
	return openSigs[sig]
}

func lastComp(s string) string {
	if i := strings.LastIndexByte(s, '/'); i >= 0 {
		return s[i+1:]
	}
	return s
}

// ---- watchdog ----------------------------------------------------------------

var running atomic.Bool
var hangFile string

func watchdog() {
	last := int64(-1)
	still := 0
	for {
		time.Sleep(time.Second)
		if !running.Load() {
			still = 0
			continue
		}
		cur := progressCtr.Load()
		if cur == last {
			still++
		} else {
			still = 0
			last = cur
		}
		if still >= 60 {
			buf := make([]byte, 8<<20)
			n := runtime.Stack(buf, true)
			if hangFile != "" {
				_ = os.WriteFile(hangFile, buf[:n], 0o644)
			}
			fmt.Fprintf(os.Stderr, "WATCHDOG: no controller progress for 60s\n")
			os.Exit(3)
		}
	}
}

func TestMain(m *testing.M) {
	var rl syscall.Rlimit
	if err := syscall.Getrlimit(syscall.RLIMIT_NOFILE, &rl); err == nil && rl.Cur < rl.Max {
		rl.Cur = rl.Max
		_ = syscall.Setrlimit(syscall.RLIMIT_NOFILE, &rl)
	}
	log.SetOutput(io.Discard)
	initBaseConfig()
	loadFindings()
	go watchdog()
	os.Exit(m.Run())
}

// ---- result ------------------------------------------------------------------

type ViolationRec struct {
	Sig    string `json:"sig"`
	Detail string `json:"detail"`
	Replay string `json:"replay"`
	Seed   uint64 `json:"seed"`
}

type WorkerResult struct {
	Prop        string            `json:"prop"`
	Worker      int               `json:"worker"`
	Runs        int               `json:"runs"`
	Nontrivial  int               `json:"nontrivial"`
	Distinct    []uint64          `json:"distinct"` // distinct non-trivial case hashes
	States      []uint64          `json:"states"`   // distinct state digests
	Steps       int               `json:"steps"`
	SimTimeMs   int64             `json:"sim_time_ms"`
	MultiChoice int               `json:"multi_choice"`
	Faults      map[string]int    `json:"faults"`
	Probes      map[string]int    `json:"probes"`
	Sites       map[string]int    `json:"sites"`
	KnownHits   map[string]int    `json:"known_hits"`
	Unstable    map[string]int    `json:"unstable"`
	Skipped     int               `json:"skipped"`
	Inconcl     int               `json:"inconclusive"`
	Violations  []ViolationRec    `json:"violations"`
	Samples     []json.RawMessage `json:"samples"`
	WallS       float64           `json:"wall_s"`
	Profiles    map[string]int    `json:"profiles"`
	NextIndex   int               `json:"next_index"`
	FirstSeed   uint64            `json:"first_seed"`
	LastSeed    uint64            `json:"last_seed"`
}

func envInt(name string, def int) int {
	if v := os.Getenv(name); v != "" {
		if n, err := strconv.Atoi(v); err == nil {
			return n
		}
	}
	return def
}

func mixSeed(base uint64, worker, i int) uint64 {
	x := base*1000003 + uint64(worker)*7919 + uint64(i)*104729 + 12345
	x ^= x >> 33
	x *= 0xff51afd7ed558ccd
	x ^= x >> 33
	return x
}

func seedGlobalRand(seed uint64) {
	rand.Seed(int64(seed & 0x7fffffffffffffff))
}

func runPlan(t *testing.T, def *PropDef, p *Plan) (o *Outcome) {
	seedGlobalRand(p.Seed)
	running.Store(true)
	defer running.Store(false)
	progress()
	lastDeadlock.Store(nil)
	lastCtrlBlocked.Store(false)
	o = def.Run(t, p)
	if o == nil {
		o = &Outcome{}
	}
	if lastCtrlBlocked.Load() && lastDeadlock.Load() == nil {
		// the run was abandoned because the controller could not take a white-box dump (a descheduled task held
		// the lock) and no lock cycle exists: nothing can be concluded from it
		o.Sig, o.Detail = "", ""
		o.Inconcl++
	}
	if d := lastDeadlock.Load(); d != nil {
		// a cycle of tasks each waiting for a lock the next one holds: reported whatever else the run's own
		// oracle made of the commands that never completed
		kind := d.Kind
		if kind == "" {
			kind = "lock-order"
		}
		o.Sig = def.ID + "/deadlock/" + kind + ":" + d.On
		o.Detail = "deadlock: " + d.Detail
	}
	return o
}

// TestWorker is the single entry point.
func TestWorker(t *testing.T) {
	mode := os.Getenv("DSIM_MODE")
	if mode == "" {
		t.Skip("DSIM_MODE not set")
	}
	def := registry[os.Getenv("DSIM_PROP")]
	if def == nil {
		fmt.Fprintf(os.Stderr, "HARNESS: unknown property %q\n", os.Getenv("DSIM_PROP"))
		os.Exit(2)
	}
	out := os.Getenv("DSIM_OUT")
	hangFile = out + ".hang"
	switch mode {
	case "worker":
		workerMain(t, def, out)
	case "replay":
		replayMain(t, def)
	case "witness":
		witnessMain(t, def)
	case "shrink":
		shrinkMain(t, def)
	default:
		fmt.Fprintf(os.Stderr, "HARNESS: unknown mode %q\n", mode)
		os.Exit(2)
	}
}

func workerMain(t *testing.T, def *PropDef, out string) {
	tier := os.Getenv("DSIM_TIER")
	if tier == "" {
		tier = "quick"
	}
	base := uint64(envInt("DSIM_SEED", 1))
	worker := envInt("DSIM_WORKER", 0)
	maxRuns := envInt("DSIM_RUNS", 1<<30)
	budget := time.Duration(envInt("DSIM_BUDGET_MS", 20000)) * time.Millisecond
	outDir := os.Getenv("DSIM_REPLAY_DIR")
	if outDir == "" {
		outDir = "/verif/out/" + def.ID
	}
	_ = os.MkdirAll(outDir, 0o755)
	curFile := out + ".current"
	start := time.Now()
	res := &WorkerResult{Prop: def.ID, Worker: worker, Faults: map[string]int{}, Probes: map[string]int{}, Sites: map[string]int{},
		KnownHits: map[string]int{}, Profiles: map[string]int{}, Unstable: map[string]int{}}
	distinct := map[uint64]bool{}
	states := map[uint64]bool{}
	seenViol := map[string]bool{}
	flush := func() {
		res.Distinct = res.Distinct[:0]
		for h := range distinct {
			res.Distinct = append(res.Distinct, h)
		}
		sort.Slice(res.Distinct, func(i, j int) bool { return res.Distinct[i] < res.Distinct[j] })
		res.States = res.States[:0]
		for h := range states {
			res.States = append(res.States, h)
		}
		sort.Slice(res.States, func(i, j int) bool { return res.States[i] < res.States[j] })
		if len(res.States) > 20000 {
			res.States = res.States[:20000]
		}
		res.WallS = time.Since(start).Seconds()
		b, _ := json.Marshal(res)
		_ = os.WriteFile(out+".tmp", b, 0o644)
		_ = os.Rename(out+".tmp", out)
	}
	for i := envInt("DSIM_START", 0); i < maxRuns; i++ {
		if time.Since(start) > budget {
			break
		}
		seed := mixSeed(base, worker, i)
		// one quick plan in eight is generated with the thorough tier's sizes: some defects need histories longer
		// than quick plans usually get (both genuine alarms of the thorough sweeps were of that kind)
		genTier := tier
		if tier == "quick" && seed%8 == 5 {
			genTier = "thorough"
		}
		p := def.Gen(NewRng(seed), genTier, worker*100003+i)
		p.Prop = def.ID
		p.Seed = seed
		if i == 0 {
			res.FirstSeed = seed
		}
		res.LastSeed = seed
		_ = p.Save(curFile)
		_ = os.WriteFile(out+".idx", []byte(strconv.Itoa(i)), 0o644)
		o := runPlan(t, def, p)
		if tf := os.Getenv("DSIM_TRACE"); tf != "" {
			sb, _ := json.Marshal(o.Sample)
			f, _ := os.OpenFile(tf, os.O_APPEND|os.O_CREATE|os.O_WRONLY, 0o644)
			fmt.Fprintf(f, "%d %d sig=%q sched=%x ev=%x steps=%d class=%x sample=%x detail=%x\n", i, seed, o.Sig, o.Sched, o.Stats.EvHash, o.Stats.Steps, hashString(o.Class), hashString(string(sb)), hashString(o.Detail))
			f.Close()
			if os.Getenv("DSIM_TRACE_PLANS") != "" {
				_ = os.MkdirAll(tf+".plans", 0o755)
				_ = p.Save(filepath.Join(tf+".plans", fmt.Sprintf("%d.json", i)))
			}
		}
		res.Runs++
		res.Profiles[p.Profile]++
		res.Steps += o.Stats.Steps
		res.SimTimeMs += o.Stats.SimTime.Milliseconds()
		res.MultiChoice += o.Stats.MultiChoice
		res.Skipped += o.Skipped
		res.Inconcl += o.Inconcl
		for k, v := range o.Stats.FaultsFired {
			res.Faults[k] += v
		}
		for k, v := range o.Stats.Probes {
			res.Probes[k] += v
		}
		for k, v := range o.Stats.SiteReleases {
			res.Sites[k] += v
		}
		if !o.Trivial {
			res.Nontrivial++
			distinct[o.Sched^hashString(o.Class)] = true
		}
		for _, h := range o.StateH {
			if len(states) < 50000 {
				states[h] = true
			}
		}
		if len(res.Samples) < 3 && !o.Trivial {
			sm := map[string]any{"seed": seed, "profile": p.Profile, "knobs": p.Knobs, "sknobs": p.SKnobs, "init": opsStrings(p.Init), "ops": opsStrings(p.Ops), "outcome": o.Sample}
			b, _ := json.Marshal(sm)
			res.Samples = append(res.Samples, b)
		}
		if o.Sig != "" && !openSigs[o.Sig] {
			// a violation is reported only if the same plan fails the same way again (exact replay)
			stable := true
			for k := 0; k < 3 && stable; k++ {
				if o2 := runPlan(t, def, p); o2.Sig != o.Sig {
					stable = false
				}
			}
			if !stable {
				res.Unstable[o.Sig]++
				up := *p
				up.ExpectSig, up.Detail = o.Sig, o.Detail
				_ = up.Save(filepath.Join(outDir, fmt.Sprintf("unstable-%016x.json", hashString(o.Sig))))
				if def.FlakySig != "" {
					o.Sig = def.FlakySig
				} else {
					res.Inconcl++
					o.Sig = ""
				}
			}
		}
		if o.Sig != "" {
			if openSigs[o.Sig] {
				res.KnownHits[o.Sig]++
			} else if !seenViol[o.Sig] {
				seenViol[o.Sig] = true
				min := p
				if os.Getenv("DSIM_NOSHRINK") == "" {
					min = Shrink(p, o.Sig, func(c *Plan) *Outcome { return runPlan(t, def, c) }, envInt("DSIM_SHRINK_BUDGET", 400))
				}
				mo := runPlan(t, def, min)
				min.ExpectSig = o.Sig
				min.Detail = mo.Detail
				min.EventLog = mo.Log
				path := filepath.Join(outDir, fmt.Sprintf("%016x.json", hashString(o.Sig)))
				_ = min.Save(path)
				res.Violations = append(res.Violations, ViolationRec{Sig: o.Sig, Detail: mo.Detail, Replay: path, Seed: seed})
				if len(res.Violations) >= envInt("DSIM_MAXVIOL", 8) {
					break
				}
			}
		}
		res.NextIndex = i + 1
		if i%10 == 0 {
			flush()
		}
	}
	flush()
	_ = os.Remove(curFile)
	if os.Getenv("DSIM_FDCOUNT") != "" {
		if ents, err := os.ReadDir("/proc/self/fd"); err == nil {
			fmt.Fprintf(os.Stderr, "FDCOUNT runs=%d open=%d\n", res.Runs, len(ents))
		}
	}
}

func opsStrings(ops []Op) []string {
	out := make([]string, len(ops))
	for i, o := range ops {
		out[i] = o.String()
	}
	return out
}

func replayMain(t *testing.T, def *PropDef) {
	p, err := LoadPlan(os.Getenv("DSIM_REPLAY"))
	if err != nil {
		fmt.Fprintf(os.Stderr, "HARNESS: %v\n", err)
		os.Exit(2)
	}
	if os.Getenv("DSIM_NOAVOID") != "" {
		p.NoAvoid = true
	}
	o := runPlan(t, def, p)
	for _, l := range o.Log {
		fmt.Println("  " + l)
	}
	fmt.Printf("REPLAY signature=%q expected=%q\n", o.Sig, p.ExpectSig)
	fmt.Printf("DETAIL %s\n", o.Detail)
	if o.Sig != "" {
		fmt.Printf("VIOLATION property=%s replay=%s\n", def.ID, os.Getenv("DSIM_REPLAY"))
		if p.ExpectSig != "" && o.Sig != p.ExpectSig {
			fmt.Println("NOTE: violation differs from the recorded one")
		}
		os.Exit(1)
	}
}

func witnessMain(t *testing.T, def *PropDef) {
	type wres struct {
		Signature string `json:"signature"`
		Got       string `json:"got"`
		Reproduce bool   `json:"reproduces"`
		What      string `json:"what"`
		Status    string `json:"status"`
	}
	var all []wres
	for _, f := range findings {
		if f.Property != def.ID || f.Witness == "" {
			continue
		}
		wp := f.Witness
		if !filepath.IsAbs(wp) {
			wp = filepath.Join("/verif", wp)
		}
		p, err := LoadPlan(wp)
		if err != nil {
			fmt.Fprintf(os.Stderr, "HARNESS: witness %s: %v\n", wp, err)
			os.Exit(2)
		}
		p.NoAvoid = true
		o := runPlan(t, def, p)
		all = append(all, wres{Signature: f.Signature, Got: o.Sig, Reproduce: o.Sig == f.Signature, What: f.What, Status: f.Status})
	}
	b, _ := json.Marshal(all)
	_ = os.WriteFile(os.Getenv("DSIM_OUT"), b, 0o644)
}

func shrinkMain(t *testing.T, def *PropDef) {
	p, err := LoadPlan(os.Getenv("DSIM_REPLAY"))
	if err != nil {
		fmt.Fprintf(os.Stderr, "HARNESS: %v\n", err)
		os.Exit(2)
	}
	o := runPlan(t, def, p)
	if o.Sig == "" {
		fmt.Println("plan does not fail")
		return
	}
	min := Shrink(p, o.Sig, func(c *Plan) *Outcome { return runPlan(t, def, c) }, 2000)
	mo := runPlan(t, def, min)
	min.ExpectSig = o.Sig
	min.Detail = mo.Detail
	min.EventLog = mo.Log
	_ = min.Save(os.Getenv("DSIM_OUT"))
	fmt.Printf("shrunk: sig=%s ops=%d init=%d dice=%d\n", o.Sig, len(min.Ops), len(min.Init), len(min.Dice))
}

var _ = strings.ToLower

// TestMeta prints the static description of a property (used by the driver for the evidence file).
func TestMeta(t *testing.T) {
	if os.Getenv("DSIM_MODE") != "meta" {
		t.Skip()
	}
	def := registry[os.Getenv("DSIM_PROP")]
	if def == nil {
		return
	}
	b, _ := json.Marshal(map[string]any{"rule": def.Rule, "assumptions": def.Assumptions, "real": def.Real, "stub": def.Stub})
	fmt.Println("META " + string(b))
}
