package dsim

import (
	"io"
	"log"
	"os"
	"testing"
)

func TestMain(m *testing.M) {
	log.SetOutput(io.Discard)
	initBaseConfig()
	os.Exit(m.Run())
}
