package dsim

// Simulated disk: real files on tmpfs + a shadow durability model + crash images.
//
// Fault model (ordered journal, deliberately the forgiving one): fsync(f) makes every
// earlier operation on f durable; un-synced appended bytes survive as an arbitrary
// prefix of the pending operation sequence, the last surviving write possibly torn
// (a byte prefix of it); kill = everything handed to the OS survives.

import (
	"errors"
	"fmt"
	"io/fs"
	"os"
	"path/filepath"
	"runtime"
	"strings"
	"syscall"

	"github.com/echovault/sugardb/verifhook"
)

type pendingOp struct {
	kind string // write | truncate
	data []byte
	off  int64 // write offset (for non-append files)
}

type shadowFile struct {
	path       string // absolute path
	rel        string // relative to the data dir
	appendMode bool
	durable    []byte
	exists     bool // durable existence
	pending    []pendingOp
	off        int64
}

// Disk tracks all files of one instance's data directory.
type Disk struct {
	Dir        string
	Inst       int
	files      map[string]*shadowFile // by rel path
	sim        *Sim
	opps       int    // crash/fault opportunities seen since arming
	ArmAt      int    // fire at this opportunity index (since arming); -1 = disarmed
	Mode       string // kill | power | eio | enospc | short
	Fired      bool
	FiredAt    string
	Image      string // directory holding the post-crash image
	dice       *Dice
	OnOpp      func(site string)
	Sites      []string // sites seen (for reach statistics)
	only       string   // if set, only opportunities whose site has this prefix count
	extraPower func(img string)
	dirs       map[string]bool // directories created through FSEvent (rel paths), pending durability
	open       []*simFile
}

func (s *Sim) NewDisk(dir string, inst int, dice *Dice) *Disk {
	d := &Disk{Dir: dir, Inst: inst, files: map[string]*shadowFile{}, sim: s, ArmAt: -1, dice: dice}
	s.disks = append(s.disks, d)
	// everything present when the instance boots is durable (it is the image we start from)
	_ = filepath.WalkDir(dir, func(p string, de fs.DirEntry, err error) error {
		if err != nil || de.IsDir() {
			return nil
		}
		rel, _ := filepath.Rel(dir, p)
		b, _ := os.ReadFile(p)
		d.files[rel] = &shadowFile{path: p, rel: rel, appendMode: strings.HasSuffix(p, "log.aof"), durable: b, exists: true}
		return nil
	})
	return d
}

func (d *Disk) Arm(at int, mode, only string) {
	d.opps = 0
	d.ArmAt = at
	d.Mode = mode
	d.only = only
	d.Fired = false
}
func (d *Disk) Disarm() { d.ArmAt = -1 }

func (d *Disk) shadow(path string, appendMode bool) *shadowFile {
	rel, err := filepath.Rel(d.Dir, path)
	if err != nil {
		rel = path
	}
	sf := d.files[rel]
	if sf == nil {
		// not present at boot: a new file whose creation is not durable yet
		sf = &shadowFile{path: path, rel: rel, appendMode: appendMode}
		d.files[rel] = sf
	}
	return sf
}

type crashSignal struct{}

// opportunity is called at every point where a fault may be injected. It returns
// an error to inject, or never returns (Goexit) when the instance crashes here.
func (d *Disk) opportunity(site string) error {
	if d.sim.isDead(d.Inst) {
		runtime.Goexit()
	}
	if d.ArmAt < 0 || d.Fired {
		return nil
	}
	if d.only != "" && !strings.HasPrefix(site, d.only) {
		return nil
	}
	if (d.Mode == "eio" || d.Mode == "enospc") && !realOpSite(site) {
		return nil // errors are only injected where a real file operation follows
	}
	if d.Mode == "short" {
		return nil // short writes are injected by the file wrapper's Write only
	}
	if (d.Mode == "oskill") != strings.HasPrefix(site, "os.") {
		return nil // the operating-system level opportunities have their own mode and their own numbering
	}
	idx := d.opps
	d.opps++
	if idx != d.ArmAt {
		return nil
	}
	d.Fired = true
	d.FiredAt = site
	d.sim.Stats.FaultsFired[d.Mode+"@"+siteKind(site)]++
	d.sim.logf("FAULT %s at %s", d.Mode, site)
	switch d.Mode {
	case "kill", "power", "oskill":
		d.crash()
		runtime.Goexit()
	case "eio":
		return syscall.EIO
	case "enospc":
		return syscall.ENOSPC
	}
	return nil
}

func siteKind(site string) string { return site }

func realOpSite(site string) bool {
	if strings.HasPrefix(site, "aof.") {
		return true
	}
	return strings.HasPrefix(site, "snap.") && site != "snap.done"
}

// crash captures the post-crash image and marks the instance dead.
func (d *Disk) crash() {
	img := d.Dir + ".img"
	_ = os.RemoveAll(img)
	if d.Mode == "power" {
		d.materialisePower(img)
	} else {
		copyTree(d.Dir, img)
	}
	d.Image = img
	d.CloseAll()
	d.sim.mu.Lock()
	d.sim.deadInst[d.Inst] = true
	d.sim.rewriting[d.Inst] = false
	d.sim.mu.Unlock()
}

// CrashNow is a crash at a command boundary (no operation in flight).
func (d *Disk) CrashNow(mode string) {
	d.Mode = mode
	d.Fired = true
	d.FiredAt = "boundary"
	d.sim.Stats.FaultsFired[mode+"@boundary"]++
	d.sim.logf("FAULT %s at boundary", mode)
	d.crash()
	d.sim.KillInstance(d.Inst)
}

func copyTree(src, dst string) {
	_ = filepath.WalkDir(src, func(p string, de fs.DirEntry, err error) error {
		if err != nil {
			return nil
		}
		rel, _ := filepath.Rel(src, p)
		t := filepath.Join(dst, rel)
		if de.IsDir() {
			_ = os.MkdirAll(t, 0o755)
			return nil
		}
		b, err := os.ReadFile(p)
		if err == nil {
			_ = os.MkdirAll(filepath.Dir(t), 0o755)
			_ = os.WriteFile(t, b, 0o644)
		}
		return nil
	})
}

func applyOp(content []byte, op pendingOp, appendMode bool, upto int) []byte {
	switch op.kind {
	case "truncate":
		if int(op.off) < len(content) {
			return append([]byte{}, content[:op.off]...)
		}
		return append([]byte{}, content...)
	case "replace":
		return append([]byte{}, op.data...)
	case "delete":
		return nil
	case "write":
		data := op.data
		if upto >= 0 && upto < len(data) {
			data = data[:upto]
		}
		if appendMode {
			return append(append([]byte{}, content...), data...)
		}
		end := int(op.off) + len(data)
		out := append([]byte{}, content...)
		for len(out) < end {
			out = append(out, 0)
		}
		copy(out[op.off:], data)
		return out
	}
	return content
}

// materialisePower writes the power-loss image: per file, durable content plus a
// dice-chosen prefix of the pending operations (last surviving write possibly torn).
// Files never synced and never durable may be missing altogether.
func (d *Disk) materialisePower(img string) {
	_ = os.MkdirAll(img, 0o755)
	// files the wrapper knows
	known := map[string]bool{}
	for _, rel := range sortedKeys(d.files) {
		sf := d.files[rel]
		known[rel] = true
		content := append([]byte{}, sf.durable...)
		exists := sf.exists
		n := d.dice.Next(len(sf.pending) + 1) // number of pending ops that survive completely
		for i := 0; i < n; i++ {
			content = applyOp(content, sf.pending[i], sf.appendMode, -1)
			exists = sf.pending[i].kind != "delete"
		}
		if n < len(sf.pending) && sf.pending[n].kind == "write" && len(sf.pending[n].data) > 1 {
			// torn write: a strict prefix of the next write survives (maybe nothing)
			k := d.dice.Next(len(sf.pending[n].data))
			if k > 0 {
				content = applyOp(content, sf.pending[n], sf.appendMode, k)
				exists = true
				d.sim.Stats.FaultsFired["torn-write"]++
				d.sim.Probe("torn:" + tornClass(sf.pending[n].data, k))
			}
		}
		if n < len(sf.pending) {
			d.sim.Stats.FaultsFired["lost-unsynced-ops"]++
		}
		if exists {
			t := filepath.Join(img, rel)
			_ = os.MkdirAll(filepath.Dir(t), 0o755)
			_ = os.WriteFile(t, content, 0o644)
		}
	}
	// files written without the wrapper (snapshots) are handled by the FSEvent shadow: see snapDisk
	if d.extraPower != nil {
		d.extraPower(img)
	}
}

// tornClass names the RESP field class in which a torn record ends.
func tornClass(rec []byte, k int) string {
	// walk the record: "*n\r\n" then "$len\r\n" payload "\r\n" ...
	i := 0
	cls := "array-header"
	for i < k && i < len(rec) {
		switch rec[i] {
		case '*':
			j := indexCRLF(rec, i)
			if j < 0 || j+2 > k {
				if j >= 0 && k == j+1 {
					return "between-cr-lf"
				}
				return "array-header"
			}
			i = j + 2
			cls = "boundary"
		case '$':
			j := indexCRLF(rec, i)
			if j < 0 || j+2 > k {
				if j >= 0 && k == j+1 {
					return "between-cr-lf"
				}
				return "bulk-length"
			}
			n := 0
			fmt.Sscanf(string(rec[i+1:j]), "%d", &n)
			i = j + 2
			if i+n > k {
				return "payload"
			}
			i += n
			if i+2 > k {
				if k == i+1 {
					return "between-cr-lf"
				}
				return "payload-end"
			}
			i += 2
			cls = "boundary"
		default:
			return "other"
		}
	}
	return cls
}

func indexCRLF(b []byte, from int) int {
	for i := from; i+1 < len(b); i++ {
		if b[i] == '\r' && b[i+1] == '\n' {
			return i
		}
	}
	return -1
}

// ---- wrapped AOF files -------------------------------------------------------

type simFile struct {
	f    verifhook.File
	sf   *shadowFile
	d    *Disk
	name string // "log" | "pre"
}

// Wrap is installed as Sim.WrapFile.
func (d *Disk) Wrap(path string, f verifhook.File) verifhook.File {
	name := "pre"
	appendMode := false
	if strings.HasSuffix(path, "log.aof") {
		name = "log"
		appendMode = true
	}
	sf := d.shadow(path, appendMode)
	w := &simFile{f: f, sf: sf, d: d, name: name}
	d.open = append(d.open, w)
	return w
}

// CloseAll closes the descriptors a dead instance left open (the real process would be gone).
func (d *Disk) CloseAll() {
	for _, w := range d.open {
		_ = w.f.Close()
	}
	d.open = nil
}

func (w *simFile) Read(p []byte) (int, error) { return w.f.Read(p) }

func (w *simFile) Write(p []byte) (int, error) {
	site := "aof." + w.name + ".write"
	if w.d.ArmAt >= 0 && !w.d.Fired && w.d.Mode == "short" && (w.d.only == "" || strings.HasPrefix(site, w.d.only)) {
		idx := w.d.opps
		w.d.opps++
		if idx == w.d.ArmAt && len(p) > 1 {
			w.d.Fired = true
			w.d.FiredAt = site
			k := w.d.dice.Next(len(p)-1) + 1
			w.d.sim.Stats.FaultsFired["short-write@"+site]++
			n, _ := w.f.Write(p[:k])
			w.sf.pending = append(w.sf.pending, pendingOp{kind: "write", data: append([]byte{}, p[:n]...), off: w.sf.off})
			w.sf.off += int64(n)
			return n, syscall.ENOSPC
		}
	} else if err := w.d.opportunity(site); err != nil {
		return 0, err
	}
	n, err := w.f.Write(p)
	if n > 0 {
		w.sf.pending = append(w.sf.pending, pendingOp{kind: "write", data: append([]byte{}, p[:n]...), off: w.sf.off})
		w.sf.off += int64(n)
	}
	return n, err
}

func (w *simFile) Seek(off int64, whence int) (int64, error) {
	n, err := w.f.Seek(off, whence)
	if err == nil {
		w.sf.off = n
	}
	return n, err
}

func (w *simFile) Close() error { return w.f.Close() }

func (w *simFile) Truncate(size int64) error {
	if err := w.d.opportunity("aof." + w.name + ".truncate"); err != nil {
		return err
	}
	err := w.f.Truncate(size)
	if err == nil {
		w.sf.pending = append(w.sf.pending, pendingOp{kind: "truncate", off: size})
	}
	return err
}

func (w *simFile) Sync() error {
	if err := w.d.opportunity("aof." + w.name + ".sync"); err != nil {
		return err
	}
	err := w.f.Sync()
	if err == nil {
		content := append([]byte{}, w.sf.durable...)
		for _, op := range w.sf.pending {
			content = applyOp(content, op, w.sf.appendMode, -1)
		}
		w.sf.durable = content
		w.sf.exists = true
		w.sf.pending = nil
	}
	return err
}

// PendingBytes reports how many un-synced bytes the log currently has.
func (d *Disk) PendingOps(rel string) int {
	if sf := d.files[rel]; sf != nil {
		return len(sf.pending)
	}
	return 0
}

// FSEvent feeds the shadow model for files written without the wrapper (snapshots).
func (d *Disk) FSEvent(kind, path string, b []byte) {
	switch kind {
	case "mkdir":
		if d.dirs == nil {
			d.dirs = map[string]bool{}
		}
		rel, _ := filepath.Rel(d.Dir, path)
		d.dirs[rel] = true
	case "create":
		sf := d.shadow(path, false)
		sf.pending = append(sf.pending, pendingOp{kind: "truncate"})
		sf.off = 0
	case "write":
		sf := d.shadow(path, false)
		sf.pending = append(sf.pending, pendingOp{kind: "write", data: append([]byte{}, b...), off: sf.off})
		sf.off += int64(len(b))
	case "rename":
		// b holds the old path. Forgiving model: the rename is a metadata operation that is persisted
		// or not; either way the target is one of two complete files if the source was synced.
		src := d.shadow(string(b), false)
		content := append([]byte{}, src.durable...)
		for _, op := range src.pending {
			content = applyOp(content, op, false, -1)
		}
		dst := d.shadow(path, false)
		if len(src.pending) == 0 {
			dst.pending = append(dst.pending, pendingOp{kind: "replace", data: content})
		} else {
			// source not synced: the target may end up with a prefix of the source's writes
			dst.pending = append(dst.pending, pendingOp{kind: "truncate"}, pendingOp{kind: "write", data: content})
		}
		src.pending = append(src.pending, pendingOp{kind: "delete"})
	case "syncdir":
		// fsync of a directory: pending renames/creates/deletes of its entries become durable
		for _, sf := range d.files {
			if filepath.Dir(sf.path) != path {
				continue
			}
			meta := false
			for _, op := range sf.pending {
				if op.kind == "replace" || op.kind == "delete" {
					meta = true
				}
			}
			if !meta {
				continue
			}
			content := append([]byte{}, sf.durable...)
			exists := sf.exists
			for _, op := range sf.pending {
				content = applyOp(content, op, false, -1)
				exists = op.kind != "delete"
			}
			sf.durable, sf.exists, sf.pending = content, exists, nil
		}
	case "sync":
		sf := d.shadow(path, false)
		content := append([]byte{}, sf.durable...)
		for _, op := range sf.pending {
			content = applyOp(content, op, false, -1)
		}
		sf.durable = content
		sf.exists = true
		sf.pending = nil
	}
}

var errInjected = errors.New("injected")

// extraPower lets a profile add files that are written without the wrapper.
func (d *Disk) setExtraPower(f func(img string)) { d.extraPower = f }
