package dsim

// Plans, the seeded choice source, outcomes and the generic shrinker.

import (
	"encoding/json"
	"fmt"
	"math/rand/v2"
	"os"
	"sort"
)

// Rng is the only source of random choices while a plan is generated. One VERIF_SEED
// (plus the worker/run index) fully determines the plan; inside a run nothing is random:
// every scheduling or fault decision consumes the plan's pre-drawn Dice.
type Rng struct{ r *rand.Rand }

func NewRng(seed uint64) *Rng { return &Rng{rand.New(rand.NewPCG(seed, seed^0x9e3779b97f4a7c15))} }

func (r *Rng) Intn(n int) int {
	if n <= 0 {
		return 0
	}
	return r.r.IntN(n)
}
func (r *Rng) Range(lo, hi int) int { return lo + r.Intn(hi-lo+1) } // inclusive
func (r *Rng) Bool() bool           { return r.r.IntN(2) == 0 }
func (r *Rng) Chance(p float64) bool {
	return r.r.Float64() < p
}
func (r *Rng) U32() uint32 { return r.r.Uint32() }
func Pick[T any](r *Rng, xs []T) T {
	return xs[r.Intn(len(xs))]
}

// Op is one step of a plan. Kind "" = a command issued by client C.
type Op struct {
	Kind string   `json:"k,omitempty"` // "", "advance", "restart", "crash", "save", "rewrite", ...
	C    int      `json:"c,omitempty"`
	Args []string `json:"a,omitempty"`
	N    int64    `json:"n,omitempty"`
	S    string   `json:"s,omitempty"`
}

func (o Op) String() string {
	if o.Kind == "" {
		return fmt.Sprintf("c%d %q", o.C, o.Args)
	}
	return fmt.Sprintf("%s c%d n=%d s=%s %q", o.Kind, o.C, o.N, o.S, o.Args)
}

// Plan is one simulated execution, complete: configuration knobs, dataset seeding,
// operations (workload and faults) and the dice that decide every interleaving.
type Plan struct {
	Prop    string            `json:"prop"`
	Profile string            `json:"profile,omitempty"`
	Seed    uint64            `json:"seed"`
	Knobs   map[string]int64  `json:"knobs,omitempty"`
	SKnobs  map[string]string `json:"sknobs,omitempty"`
	Init    []Op              `json:"init,omitempty"`
	Ops     []Op              `json:"ops,omitempty"`
	Dice    []uint32          `json:"dice,omitempty"`
	NoAvoid bool              `json:"no_avoid,omitempty"` // witness plans run with avoidance off
	// filled in when written as a replay file
	ExpectSig string   `json:"expect_signature,omitempty"`
	Detail    string   `json:"detail,omitempty"`
	EventLog  []string `json:"event_log,omitempty"`
}

func (p *Plan) K(name string) int64   { return p.Knobs[name] }
func (p *Plan) SK(name string) string { return p.SKnobs[name] }

func (p *Plan) Clone() *Plan {
	b, _ := json.Marshal(p)
	q := &Plan{}
	_ = json.Unmarshal(b, q)
	return q
}

func (p *Plan) Save(path string) error {
	b, err := json.MarshalIndent(p, "", " ")
	if err != nil {
		return err
	}
	return os.WriteFile(path, b, 0o644)
}

func LoadPlan(path string) (*Plan, error) {
	b, err := os.ReadFile(path)
	if err != nil {
		return nil, err
	}
	p := &Plan{}
	if err := json.Unmarshal(b, p); err != nil {
		return nil, err
	}
	return p, nil
}

// Dice hands out the plan's pre-drawn choices.
type Dice struct {
	d []uint32
	i int
}

func (p *Plan) NewDice() *Dice { return &Dice{d: p.Dice} }

// Next returns a choice in [0,n). When the dice run out the choice is 0
// ("first task in sorted order" — the least surprising schedule).
func (d *Dice) Next(n int) int {
	if n <= 1 {
		return 0
	}
	if d.i >= len(d.d) {
		d.i++
		return 0
	}
	v := d.d[d.i]
	d.i++
	return int(v % uint32(n))
}
func (d *Dice) Used() int { return d.i }

func drawDice(r *Rng, n int) []uint32 {
	d := make([]uint32, n)
	for i := range d {
		d[i] = r.U32()
	}
	return d
}

// Outcome of running one plan.
type Outcome struct {
	Sig     string // "" = the property held on this run
	Detail  string
	Skipped int // operations skipped because they fall in an open finding's avoid class
	Class   string
	Stats   Stats
	Sched   uint64 // schedule hash
	StateH  []uint64
	Sample  any
	Trivial bool // the run did not exercise anything non-trivial by the property's own rule
	Inconcl int  // inconclusive sub-checks (e.g. linearizability checker timeout)
	Log     []string
}

// Shrink minimises a failing plan: drop operations (chunks, then single), drop init
// operations, zero/shorten the dice, simplify numeric knobs; a candidate is accepted
// only if it fails with the SAME signature.
func Shrink(p *Plan, sig string, run func(*Plan) *Outcome, budget int) *Plan {
	best := p.Clone()
	tries := 0
	try := func(c *Plan) bool {
		if tries >= budget {
			return false
		}
		tries++
		o := run(c)
		if o != nil && o.Sig == sig {
			best = c
			return true
		}
		return false
	}
	shrinkList := func(get func(*Plan) []Op, set func(*Plan, []Op)) {
		for chunk := len(get(best)) / 2; chunk >= 1; chunk /= 2 {
			for i := 0; i+chunk <= len(get(best)); {
				c := best.Clone()
				ops := get(c)
				ops = append(append([]Op{}, ops[:i]...), ops[i+chunk:]...)
				set(c, ops)
				if !try(c) {
					i += chunk
				}
				if tries >= budget {
					return
				}
			}
		}
	}
	for pass := 0; pass < 3 && tries < budget; pass++ {
		before := planSize(best)
		shrinkList(func(p *Plan) []Op { return p.Ops }, func(p *Plan, o []Op) { p.Ops = o })
		shrinkList(func(p *Plan) []Op { return p.Init }, func(p *Plan, o []Op) { p.Init = o })
		// dice: all zero, then truncate, then zero single entries from the end
		if len(best.Dice) > 0 {
			c := best.Clone()
			c.Dice = nil
			if !try(c) {
				for n := len(best.Dice) / 2; n >= 1 && tries < budget; n /= 2 {
					c := best.Clone()
					c.Dice = c.Dice[:len(c.Dice)-n]
					try(c)
				}
				for i := 0; i < len(best.Dice) && tries < budget; i++ {
					if best.Dice[i] == 0 {
						continue
					}
					c := best.Clone()
					c.Dice[i] = 0
					try(c)
				}
			}
		}
		// trailing args of commands
		for i := 0; i < len(best.Ops) && tries < budget; i++ {
			for len(best.Ops[i].Args) > 2 && tries < budget {
				c := best.Clone()
				c.Ops[i].Args = c.Ops[i].Args[:len(c.Ops[i].Args)-1]
				if !try(c) {
					break
				}
			}
		}
		if planSize(best) == before {
			break
		}
	}
	return best
}

func planSize(p *Plan) int {
	n := len(p.Ops)*4 + len(p.Init)*4
	for _, o := range p.Ops {
		n += len(o.Args)
	}
	for _, d := range p.Dice {
		if d != 0 {
			n++
		}
	}
	return n + len(p.Dice)
}

func sortedKeys[V any](m map[string]V) []string {
	ks := make([]string, 0, len(m))
	for k := range m {
		ks = append(ks, k)
	}
	sort.Strings(ks)
	return ks
}
