package dsim

// Profile "conn": connection-level commands under the dice. 2-3 TCP connections, each with its own selected
// database, issue SELECT, SWAPDB, FLUSHALL, FLUSHDB, HELLO and data commands concurrently; besides the
// keyspace steps and the store lock, every acquisition of the connection-table lock is a scheduling point
// (lock-aware scheduling: a task never blocks on a lock held by a descheduled task, and a cycle of such waits
// is reported as a deadlock). Each connection ends with a marker write that reveals the database it is in.
// Oracle: C05's - the replies and the final dataset (all databases) equal those of some serial order.
// The same plans are explored under three properties: C05 (atomicity, no deadlock), C12 (every command
// answered, process stays up) and C20 (isolation of logical databases).

import (
	"fmt"
	"strconv"
	"strings"
)

var connDBs = []string{"0", "1", "5"}

func genConnConc(r *Rng, tier string, p *Plan) *Plan {
	p.Profile = "conn"
	nclients := r.Range(2, 3)
	p.Knobs["clients"] = int64(nclients)
	p.Knobs["alltcp"] = 1
	p.Knobs["parklocks"] = 1
	keys := []string{"k1", "k2"}
	g := &GenCfg{Keys: keys, NoRandom: true, NowMs: 946684800000}
	// seed a few keys in database 0 (the seeding client is the embedded one) and, through the first commands of
	// the plan, in the connections' own databases
	p.Init = g.SeedOps(r, r.Range(0, 3))
	per := 1
	if nclients == 2 {
		per = r.Range(1, 2)
	}
	dataCmd := func() []string {
		k := Pick(r, keys)
		switch r.Intn(9) {
		case 0:
			return []string{"GET", k}
		case 1:
			return []string{"INCR", k}
		case 2:
			return []string{"DEL", k}
		case 3:
			return []string{"SADD", k, Pick(r, members), Pick(r, members)}
		case 4:
			return []string{"SUNIONSTORE", Pick(r, keys), k, Pick(r, keys)}
		case 5:
			return []string{"MSET", "k1", Pick(r, defaultVals), "k2", Pick(r, defaultVals)}
		case 6:
			return []string{"RPUSH", k, Pick(r, defaultVals)}
		}
		return []string{"SET", k, Pick(r, defaultVals)}
	}
	if r.Chance(0.15) {
		// SWAPDB next to connections that SELECT away from (or into) the swapped databases: on the pinned tree these
		// serialise (both update the connection table under its lock), so the serial-order oracle applies in full
		p.Knobs["clients"] = int64(nclients)
		p.Knobs["cdb0"] = int64(r.Intn(len(connDBs)))
		x, y := connDBs[r.Intn(len(connDBs))], connDBs[r.Intn(len(connDBs))]
		p.Ops = append(p.Ops, Op{C: 0, Args: []string{"SWAPDB", x, y}})
		p.Ops = append(p.Ops, Op{Kind: "marker", C: 0, Args: []string{"SET", "mark0", "0"}})
		for c := 1; c < nclients; c++ {
			// the other connections sit in one of the swapped databases
			for j, d := range connDBs {
				if d == Pick(r, []string{x, y}) {
					p.Knobs[fmt.Sprintf("cdb%d", c)] = int64(j)
				}
			}
			p.Ops = append(p.Ops, Op{C: c, Args: []string{"SELECT", Pick(r, append(connDBs, "7"))}})
			p.Ops = append(p.Ops, Op{Kind: "marker", C: c, Args: []string{"SET", "mark" + strconv.Itoa(c), strconv.Itoa(c)}})
		}
		p.Dice = drawDice(r, 96)
		return p
	}
	// one plan in four: every connection moves to the same database that does not exist yet, and writes there
	fresh := ""
	if r.Chance(0.3) {
		fresh = Pick(r, []string{"7", "8", "11"})
		if r.Bool() {
			// directed: the first connection is held between two of its store-lock acquisitions while the others
			// select the new database and write there
			p.Knobs["holdk"] = int64(r.Range(1, 3))
		}
	}
	for c := 0; c < nclients; c++ {
		p.Knobs[fmt.Sprintf("cdb%d", c)] = int64(r.Intn(len(connDBs)))
		for _, op := range g.SeedOps(r, r.Range(0, 2)) {
			p.Init = append(p.Init, Op{Kind: "cseed", C: c, Args: op.Args})
		}
		for j := 0; j < per; j++ {
			var a []string
			if fresh != "" {
				if j == 0 {
					a = []string{"SELECT", fresh}
				} else {
					a = dataCmd()
				}
				p.Ops = append(p.Ops, Op{C: c, Args: a})
				continue
			}
			switch x := r.Intn(100); {
			case x < 25:
				a = []string{"SELECT", Pick(r, append(connDBs, "7"))}
			case x < 40:
				a = []string{"SWAPDB", Pick(r, connDBs), Pick(r, connDBs)}
			case x < 52:
				a = []string{"FLUSHALL"}
			case x < 56:
				a = []string{"FLUSHDB"}
			case x < 60:
				a = []string{"HELLO", Pick(r, []string{"2", "3"})}
			default:
				a = dataCmd()
			}
			p.Ops = append(p.Ops, Op{C: c, Args: a})
		}
		// the marker: lands in whatever database the connection is in at the end
		p.Ops = append(p.Ops, Op{Kind: "marker", C: c, Args: []string{"SET", "mark" + strconv.Itoa(c), strconv.Itoa(c)}})
	}
	p.Dice = drawDice(r, 96)
	return p
}

func hasCmd(ops []Op, name string) bool {
	for _, op := range ops {
		if len(op.Args) > 0 && strings.EqualFold(op.Args[0], name) {
			return true
		}
	}
	return false
}

// connCulprit names the connection-level commands of a plan (coarse signature component).
func connCulprit(ops []Op) string {
	if hasCmd(ops, "SWAPDB") {
		if !swapdbExposed(ops) {
			return "SWAPDB-vs-SELECT" // not what the recorded SWAPDB finding is about
		}
		return "SWAPDB"
	}
	var out []string
	for _, n := range []string{"FLUSHALL", "FLUSHDB", "HELLO", "SELECT"} {
		if hasCmd(ops, n) {
			out = append(out, n)
		}
	}
	if len(out) == 0 {
		return "data"
	}
	return strings.Join(out, "+")
}

// swapdbExposed: does the concurrent phase of the plan hold a command that the recorded SWAPDB finding covers - a
// command that reads its connection's database index at its start and uses it later (every data command, HELLO),
// or a second SWAPDB? Plans in which SWAPDB only meets SELECT and flushes are serialisable on the pinned tree.
func swapdbExposed(ops []Op) bool {
	n := 0
	for _, op := range ops {
		if op.Kind == "marker" || len(op.Args) == 0 {
			continue
		}
		switch strings.ToUpper(op.Args[0]) {
		case "SELECT", "FLUSHALL":
		case "SWAPDB":
			n++
			if n > 1 {
				return true
			}
		default:
			return true
		}
	}
	return false
}
