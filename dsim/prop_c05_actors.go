package dsim

// C05 profile "actors": SAVE, REWRITEAOF, FLUSHDB/FLUSHALL, SWAPDB and the background expiry sampler
// run next to readers and writers; every keyspace step, state-copy step and ticker wake-up is a
// controller decision. Oracles: no panic, no deadlock (watchdog), no endless busy-wait, every command
// completes, and the final dataset holds no ghost entry (a key without a value).

import (
	"fmt"
	"os"
	"path/filepath"
	"strings"
	"testing"
	"time"
)

func genC05Actors(r *Rng, tier string, p *Plan) *Plan {
	p.Profile = "actors"
	p.SKnobs["policy"] = Pick(r, []string{"noeviction", "allkeys-lfu", "volatile-lru", "allkeys-random"})
	g := &GenCfg{Keys: []string{"k1", "k2", "k3"}, NoRandom: true, NowMs: 946684800000}
	p.Init = g.SeedOps(r, r.Range(0, 5))
	nclients := r.Range(2, 4)
	p.Knobs["clients"] = int64(nclients)
	actors := [][]string{{"SAVE"}, {"REWRITEAOF"}, {"FLUSHDB"}, {"FLUSHALL"}, {"SWAPDB", "0", "1"}, {"SAVE"}, {"REWRITEAOF"}}
	for c := 0; c < nclients; c++ {
		for j, n := 0, r.Range(1, 4); j < n; j++ {
			if r.Chance(0.3) {
				p.Ops = append(p.Ops, Op{C: c, Args: Pick(r, actors)})
			} else {
				p.Ops = append(p.Ops, Op{C: c, Args: g.Cmd(r)})
			}
		}
	}
	p.Knobs["advances"] = int64(r.Range(0, 6))
	p.Dice = drawDice(r, 256)
	return p
}

func runC05Actors(t *testing.T, p *Plan) *Outcome {
	o := &Outcome{}
	root := filepath.Join(scratchDir(), fmt.Sprintf("r%d", runCounter.Add(1)))
	_ = os.MkdirAll(root, 0o755)
	defer os.RemoveAll(root)
	fail := func(sig, detail string) {
		if o.Sig == "" {
			o.Sig, o.Detail = "C05/"+sig, detail
		}
	}
	var names []string
	br := RunBubble(t, func() {
		s := NewSim()
		s.logOn = true
		s.install()
		defer s.uninstall()
		dice := p.NewDice()
		cfg := BaseConfig
		cfg.DataDir = root
		cfg.AOFSyncStrategy = "no"
		cfg.EvictionPolicy = p.SK("policy")
		cfg.EvictionInterval = 100 * time.Millisecond
		inst, err := s.Boot(1, cfg)
		if err != nil {
			fail("boot-failed", fmt.Sprint(err))
			return
		}
		seed := s.NewEmbeddedClient(inst, "seed")
		for _, op := range p.Init {
			seed.DoSync(op.Args...)
		}
		nclients := int(p.K("clients"))
		cs := make([]*Client, nclients)
		perClient := make([][]int, nclients)
		for i := range cs {
			if i == 0 {
				cs[i] = s.NewTCPClient(inst, "t0")
			} else {
				cs[i] = s.NewEmbeddedClient(inst, fmt.Sprintf("e%d", i))
			}
		}
		for i, op := range p.Ops {
			perClient[op.C%nclients] = append(perClient[op.C%nclients], i)
			names = append(names, strings.ToUpper(op.Args[0]))
		}
		done := make([]bool, len(p.Ops))
		results := make([]string, len(p.Ops))
		next := make([]int, nclients)
		startNext := func(c int) {
			if next[c] >= len(perClient[c]) {
				return
			}
			i := perClient[c][next[c]]
			next[c]++
			cs[c].Start(p.Ops[i].Args, func(r Result) {
				results[i] = r.String()
				if r.Panic != "" {
					fail("panic/"+topRepoFrame(r.Panic), fmt.Sprintf("%q: %s", p.Ops[i].Args, r.Panic))
				}
				done[i] = true
			})
		}
		for c := 0; c < nclients; c++ {
			startNext(c)
		}
		advances := int(p.K("advances"))
		for step := 0; step < 6000 && o.Sig == ""; step++ {
			for c := 0; c < nclients; c++ {
				if next[c] > 0 && next[c] < len(perClient[c]) && done[perClient[c][next[c]-1]] {
					startNext(c)
				}
			}
			parked := s.ParkedTasks()
			n := len(parked)
			if advances > 0 {
				n++
			}
			if n == 0 {
				break
			}
			k := dice.Next(n)
			if k == len(parked) {
				advances--
				s.noteChoice(n, "advance")
				s.Advance(100 * time.Millisecond)
				continue
			}
			tk, stuck := PickFair(parked, k, 400)
			s.noteChoice(n, tk.Site)
			if stuck {
				fail("livelock/"+tk.Site, fmt.Sprintf("only busy-waiting tasks are left (%d), each has re-tested its flag more than 400 times (%s: %d): the flag is never cleared", len(parked), tk.Site, tk.Spins))
				break
			}
			s.Release(tk)
		}
		if o.Sig == "" {
			if !s.DrainAll(6000) {
				p2 := s.ParkedTasks()
				site := "?"
				if len(p2) > 0 {
					site = p2[0].Site
				}
				fail("livelock/"+site, "the system does not quiesce after the workload ended")
			}
		}
		for i := range p.Ops {
			if !done[i] && o.Sig == "" {
				fail("never-completed/"+strings.ToUpper(p.Ops[i].Args[0]), fmt.Sprintf("command %q was never answered", p.Ops[i].Args))
			}
		}
		if cs[0].SrvPanic != "" {
			fail("panic/"+topRepoFrame(cs[0].SrvPanic), cs[0].SrvPanic)
		}
		if o.Sig == "" {
			for db, data := range inst.DB.VerifDump().DBs {
				for k, e := range data {
					if e.Kind == "nil" || strings.HasPrefix(e.Kind, "other") {
						fail("corrupt-value/"+e.Kind, fmt.Sprintf("key %d/%s holds a %s value after the run", db, k, e.Kind))
					}
				}
			}
		}
		o.Stats = s.Stats
		o.Sched = s.schedHash
		o.Log = s.Log
		o.StateH = append(o.StateH, hashString(DataString(inst.DB.VerifDump(), false)))
		s.KillInstance(1)
	})
	if br.panicVal != nil && o.Sig == "" {
		o.Sig = "C05/panic/" + topRepoFrame(br.stack)
		o.Detail = fmt.Sprintf("%v\n%s", br.panicVal, br.stack)
	}
	o.Trivial = o.Stats.MultiChoice == 0
	o.Class = "actors|" + strings.Join(names, "+")
	o.Sample = map[string]any{"profile": "actors", "commands": names}
	return o
}
