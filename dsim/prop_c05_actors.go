package dsim

import "testing"

func genC05Actors(r *Rng, tier string, p *Plan) *Plan {
	p.Profile = "actors"
	return p
}

func runC05Actors(t *testing.T, p *Plan) *Outcome {
	return &Outcome{Trivial: true}
}
