package dsim

func (a *aofRun) runConcImpl() { a.runSeq() }
