package dsim

// C09, "conc" profile: REWRITEAOF runs while writers are active. The rewrite and the next 1-3 write
// commands of the plan are started as tasks on their own connections and interleaved by the dice at every
// yield site (keyspace calls, store-lock acquisitions, the two busy-wait flags, getState steps, the hook
// between preamble and log truncation, the logging hooks). Every state the live server passes through is an
// admissible restored state; after the phase all writers were acknowledged, so a later restart has to restore
// at least the last of them (under the durability bound of the sync policy).

import (
	"fmt"
	"os"
	"strings"
	"time"
)

// runConcImpl is runSeq with concurrent rewrites.
func (a *aofRun) runConcImpl() { a.runSeq() }

// rewriteConc runs REWRITEAOF concurrently with the write commands that follow it in the plan (ops[i+1:]).
// It returns the number of plan operations consumed after the rewrite and false if the run is over.
func (a *aofRun) rewriteConc(i int) (int, bool) {
	s, p := a.s, a.p
	type wr struct {
		args []string
		c    *Client
		res  *Result
		keys []string // "db/key" of the keys the command names
	}
	var ws []*wr
	consumed := 0
	used := map[string]bool{}
	for j := i + 1; j < len(p.Ops) && len(ws) < 3; j++ {
		op := p.Ops[j]
		if op.Kind != "" || len(op.Args) == 0 {
			break
		}
		// writers touch pairwise disjoint keys (and are no whole-database commands), so that they commute with
		// each other: what remains is the interaction of each writer with the rewrite, not C05's non-atomicity
		ks := CmdKeys(op.Args)
		clash := len(ks) == 0
		for _, k := range ks {
			if used[k] {
				clash = true
			}
		}
		if clash {
			break
		}
		consumed++
		args, skip := a.avoidRewrite(op.Args)
		if skip {
			a.skipped++
			continue
		}
		for _, k := range ks {
			used[k] = true
		}
		w := &wr{args: args}
		db := a.embdb
		if a.client(op).TCP {
			db = a.tcpdb
		}
		for _, k := range ks {
			w.keys = append(w.keys, fmt.Sprintf("%d/%s", db, k))
		}
		if a.client(op).TCP {
			w.c = s.NewTCPClient(a.inst, fmt.Sprintf("g%dw%d", a.gen, j))
			if a.tcpdb != 0 {
				w.c.DoSync("SELECT", fmt.Sprint(a.tcpdb))
			}
		} else {
			w.c = s.NewEmbeddedClient(a.inst, fmt.Sprintf("g%dw%d", a.gen, j))
		}
		ws = append(ws, w)
	}
	a.rewrites++
	a.names = append(a.names, "REWRITEAOF")
	wasSites, wasFilter, wasPass := s.sites, s.siteFilter, s.passAll.Load()
	s.sites, s.siteFilter = nil, nil
	s.passAll.Store(false)
	defer func() {
		s.sites, s.siteFilter = wasSites, wasFilter
		s.passAll.Store(wasPass)
	}()
	var rw *Result
	rwc := s.NewEmbeddedClient(a.inst, fmt.Sprintf("g%drw%d", a.gen, i))
	rwc.Start([]string{"REWRITEAOF"}, func(r Result) { rw = &r })
	// "twin" phases: a second connection asks for a rewrite at the same moment. It is either refused ("rewrite in
	// progress") or runs after the first one; in both cases writers stay excluded while a rewrite copies the state
	// and replaces the files.
	twin := p.Ops[i].S == "twin"
	var rw2 *Result
	if twin {
		s.NewEmbeddedClient(a.inst, fmt.Sprintf("g%drx%d", a.gen, i)).Start([]string{"REWRITEAOF"}, func(r Result) { rw2 = &r })
		a.names = append(a.names, "||REWRITEAOF")
	}
	for _, w := range ws {
		w := w
		a.names = append(a.names, "||"+strings.ToUpper(w.args[0]))
		w.c.Start(w.args, func(r Result) { w.res = &r })
	}
	last := a.states[len(a.states)-1]
	phaseStart := last
	crashAt := int(p.Ops[i].N) // 0 = no crash inside the phase
	directed, sawHeld, holdSteps := len(ws) > 0 && a.dice.Next(3) == 0, false, 0
	// twin phases, two in three: both rewrite requests are first taken past the "in progress" test to the engine's
	// door, so that they overlap instead of one being refused
	isRw := func(x *Task) bool {
		return strings.Contains(x.Name, "rewriteaof") || x.Site == "rewrite.lock" || x.Site == "lock.aof.engine" || x.Site == "rewrite.after_preamble" || strings.HasPrefix(x.Site, "getState") || x.Site == "spin:getState.wait"
	}
	twinDirected, preambles, writerSteps := false, 0, 0
	if twin && a.dice.Next(3) > 0 {
		twinDirected = len(ws) > 0
		directed = false
		for k := 0; k < 40; k++ {
			var next *Task
			for _, x := range s.ParkedTasks() {
				if (strings.Contains(x.Name, "rw") || strings.Contains(x.Name, "rx")) && x.Site != "rewrite.lock" && x.Site != "lock.aof.engine" {
					next = x
				}
			}
			if next == nil {
				break
			}
			s.noteChoice(1, next.Site)
			s.Release(next)
		}
	}
	for step := 0; step < 4000; step++ {
		if crashAt > 0 && step == crashAt && len(ws) > 0 {
			return consumed, a.crashInConc(phaseStart, ws2groups(len(ws), func(j int) ([]string, bool) { return ws[j].keys, ws[j].res != nil }), rw != nil)
		}
		parked := s.ParkedTasks()
		if len(parked) == 0 {
			// a TCP reply may still be in flight, or the rewrite goroutine sleeps on the fake clock
			if rw != nil && (!twin || rw2 != nil) {
				break
			}
			s.Advance(time.Millisecond)
			s.Settle()
			if len(s.ParkedTasks()) == 0 && step > 50 {
				break
			}
			continue
		}
		tk, stuck := PickFair(parked, a.dice.Next(len(parked)), 300)
		// twin phases: the rewrites run alone until the second one stands between its state copy and the truncation
		// of the log; then the writers get every step they can take - during a rewrite they must be held back,
		// whichever request it was that announced it
		if twinDirected && !stuck {
			var rwT, atPre, wT, atDoor *Task
			for _, x := range parked {
				switch {
				case isRw(x) && x.Site == "rewrite.after_preamble":
					atPre = x
				case isRw(x) && x.Site == "rewrite.lock":
					atDoor = x
				case isRw(x):
					rwT = x
				case wT == nil || x.Spins < wT.Spins:
					wT = x
				}
			}
			// the request still at the door goes to queue behind the running rewrite as soon as there is one
			if atDoor != nil && (rwT != nil || atPre != nil || preambles > 0) || rwT == nil {
				rwT = atDoor
			}
			switch {
			case atPre != nil && preambles == 0:
				tk = atPre
				preambles++
			case atPre != nil && wT != nil && wT.Spins < 6 && writerSteps < 80:
				tk = wT
				writerSteps++
			case atPre != nil:
				twinDirected = false
			case rwT != nil && rwT.Spins < 6:
				tk = rwT
			default:
				twinDirected = false
			}
		}
		// directed third of the phases: a writer is taken to the point between its handler and its log append and
		// held there while the rewrite gets every step it can take - the window in which a rewrite must not run
		if directed && !stuck {
			var held, rwT *Task
			for _, x := range parked {
				if x.Site == "cmd.after_handler" {
					held = x
				}
				if strings.Contains(x.Name, "rw") && strings.Contains(x.Name, "rewriteaof") || x.Site == "rewrite.lock" || x.Site == "rewrite.after_preamble" || strings.HasPrefix(x.Site, "getState") || x.Site == "spin:getState.wait" {
					rwT = x
				}
			}
			switch {
			case held == nil && !sawHeld:
				for _, x := range parked {
					if strings.Contains(x.Name, "w") && !strings.Contains(x.Name, "rw") && x != rwT {
						tk = x
						break
					}
				}
			case held != nil:
				sawHeld = true
				if rwT != nil && rwT.Spins < 5 && holdSteps < 60 {
					tk = rwT
					holdSteps++
				} else {
					directed = false
				}
			default:
				directed = false
			}
		}
		if twin && os.Getenv("DSIM_DEBUG_TWIN") != "" {
			fmt.Fprintf(os.Stdout, "twin step %d dir=%v pre=%d: pick %s@%s of", step, twinDirected, preambles, tk.Name, tk.Site)
			for _, x := range parked {
				fmt.Fprintf(os.Stdout, " %s@%s/%d", x.Name, x.Site, x.Spins)
			}
			fmt.Fprintln(os.Stdout)
		}
		s.noteChoice(len(parked), tk.Site)
		if stuck {
			a.fail("livelock/"+tk.Site, fmt.Sprintf("REWRITEAOF with concurrent writers %v: task t%d spun %d times at %s and nothing else can change the flag", a.names[len(a.names)-len(ws):], tk.ID, tk.Spins, tk.Site))
			return consumed, false
		}
		s.Release(tk)
		if cur := a.dump(); !mapsEqual(cur, last) {
			a.states = append(a.states, cur)
			last = cur
		}
	}
	s.DrainAll(2000)
	if rw == nil {
		a.fail("rewrite-never-completed", fmt.Sprintf("REWRITEAOF with concurrent writers did not return (parked: %d)", len(s.ParkedTasks())))
		return consumed, false
	}
	if rw.Panic != "" {
		a.fail("panic/"+topRepoFrame(rw.Panic), "REWRITEAOF: "+rw.Panic)
		return consumed, false
	}
	if twin {
		if rw2 == nil {
			a.fail("rewrite-never-completed", "the second of two simultaneous REWRITEAOF requests did not return")
			return consumed, false
		}
		if rw2.Panic != "" {
			a.fail("panic/"+topRepoFrame(rw2.Panic), "REWRITEAOF: "+rw2.Panic)
			return consumed, false
		}
		// one of two simultaneous requests may be refused, not both
		busy := func(r *Result) bool {
			return r.IsError() && strings.Contains(strings.ToLower(r.Err+" "+r.Reply.Str), "in progress")
		}
		switch {
		case busy(rw) && busy(rw2):
			a.fail("rewrite-error/both-refused", "two simultaneous REWRITEAOF requests were both refused as 'in progress'")
			return consumed, false
		case busy(rw):
			rw = rw2
		case busy(rw2):
		case rw2.IsError():
			rw = rw2
		}
	}
	if rw.IsError() {
		a.fail("rewrite-error", fmt.Sprintf("REWRITEAOF (concurrent writers) failed: %s %s", rw.Err, rw.Reply.Str))
		return consumed, false
	}
	for _, w := range ws {
		if w.res == nil {
			a.fail("concurrent-writer/never-answered", fmt.Sprintf("%q issued while REWRITEAOF was running was never answered", w.args))
			return consumed, false
		}
		if w.res.Panic != "" {
			a.fail("panic/"+topRepoFrame(w.res.Panic), fmt.Sprintf("%q: %s", w.args, w.res.Panic))
			return consumed, false
		}
		a.acked++
	}
	a.acked++
	a.rewriteCrashSite = ""
	a.crashSites = nil
	a.tainted = lossy(a.dump())
	if cur := a.dump(); !mapsEqual(cur, last) {
		a.states = append(a.states, cur)
	}
	if a.p.SK("sync") == "always" || a.disk.PendingOps("aof/log.aof") == 0 {
		a.syncedUp = len(a.states) - 1
	}
	if len(ws) == 0 {
		return consumed, true
	}
	// "restoring from disk at this instant": the process is killed right here (every byte handed to the
	// operating system survives) and restarted; everything acknowledged has to be there. Doing it at once
	// keeps the verdict attributable to this concurrent phase and to nothing that happens later in the plan.
	a.concWriters = true
	a.names = append(a.names, "probe-restart")
	a.disk.CrashNow("kill")
	ok := a.recover(a.nextImage(a.disk.Image), len(a.states)-1, nil, "kill right after REWRITEAOF with concurrent writers")
	a.concWriters = false
	return consumed, ok
}

// writePair (C02, profile pairs) runs two blind writes to the same key concurrently on two connections that
// have the same database selected; the dice interleave handler steps, store-lock acquisitions and the logging
// hooks of the two. Both are acknowledged; the process is then killed at once and restarted: the log must
// reproduce the dataset the server held, i.e. the commands must be logged in the order they took effect.
func (a *aofRun) writePair(opA, opB Op) bool {
	s := a.s
	ca := a.client(opA)
	db := a.embdb
	if ca.TCP {
		db = a.tcpdb
	}
	cb := s.NewTCPClient(a.inst, fmt.Sprintf("g%dp%d", a.gen, len(a.names)))
	if db != 0 {
		cb.DoSync("SELECT", fmt.Sprint(db))
	}
	wasSites, wasFilter, wasPass := s.sites, s.siteFilter, s.passAll.Load()
	s.sites, s.siteFilter = nil, nil
	s.passAll.Store(false)
	restore := func() {
		s.sites, s.siteFilter = wasSites, wasFilter
		s.passAll.Store(wasPass)
	}
	var ra, rb *Result
	a.names = append(a.names, strings.ToUpper(opA.Args[0])+"||"+strings.ToUpper(opB.Args[0]))
	ca.Start(opA.Args, func(r Result) { ra = &r })
	cb.Start(opB.Args, func(r Result) { rb = &r })
	last := a.states[len(a.states)-1]
	for step := 0; step < 2000; step++ {
		parked := s.ParkedTasks()
		if len(parked) == 0 {
			if ra != nil && rb != nil {
				break
			}
			s.Advance(time.Millisecond)
			s.Settle()
			if len(s.ParkedTasks()) == 0 && step > 50 {
				break
			}
			continue
		}
		tk, stuck := PickFair(parked, a.dice.Next(len(parked)), 300)
		s.noteChoice(len(parked), tk.Site)
		if stuck {
			restore()
			a.fail("livelock/"+tk.Site, fmt.Sprintf("%q || %q: task t%d spun %d times at %s", opA.Args, opB.Args, tk.ID, tk.Spins, tk.Site))
			return false
		}
		s.Release(tk)
		if cur := a.dump(); !mapsEqual(cur, last) {
			a.states = append(a.states, cur)
			last = cur
		}
	}
	s.DrainAll(2000)
	restore()
	if ra == nil || rb == nil {
		a.fail("pair/never-answered", fmt.Sprintf("%q || %q: a command was never answered", opA.Args, opB.Args))
		return false
	}
	for _, r := range []*Result{ra, rb} {
		if r.Panic != "" {
			a.fail("panic/"+topRepoFrame(r.Panic), r.Panic)
			return false
		}
	}
	a.acked += 2
	if cur := a.dump(); !mapsEqual(cur, last) {
		a.states = append(a.states, cur)
	}
	a.syncedUp = len(a.states) - 1
	a.pairProbe = true
	a.names = append(a.names, "probe-restart")
	a.disk.CrashNow("kill")
	ok := a.recover(a.nextImage(a.disk.Image), len(a.states)-1, nil, "kill right after two concurrent writes")
	a.pairProbe = false
	return ok
}

type concGroup struct {
	keys  []string
	acked bool
}

func ws2groups(n int, f func(j int) ([]string, bool)) []concGroup {
	out := make([]concGroup, n)
	for j := range out {
		out[j].keys, out[j].acked = f(j)
	}
	return out
}

// crashInConc kills the process in the middle of the concurrent phase (between two scheduling steps) and checks the
// restore key group by key group: the writers name pairwise disjoint keys, so whatever order the log holds them in,
// every group must be restored either as it was before the phase or as the live server held it at the crash, and
// as the latter if its command had been acknowledged; every other key must be as before the phase.
func (a *aofRun) crashInConc(phaseStart map[string]string, groups []concGroup, rewriteDone bool) bool {
	s := a.s
	// where is the rewrite? (a crash between the preamble and the truncation of the log is a recorded finding)
	site := ""
	for _, t := range s.ParkedTasks() {
		if t.Site == "rewrite.after_preamble" {
			site = t.Site
		}
	}
	before := phaseStart
	a.names = append(a.names, "crash-in-conc")
	a.disk.CrashNow("kill")
	dead := DataMap(a.inst.DB.VerifDump(), false)
	if !a.boot(a.nextImage(a.disk.Image)) {
		return false
	}
	a.restores++
	a.o.Trivial = false
	now := nowMs()
	got := StripExpired(a.inst.DB.VerifDump(), now, false)
	expired := func(v string) bool {
		if i := strings.LastIndex(v, " @"); i >= 0 {
			var ms int64
			if _, err := fmt.Sscan(v[i+2:], &ms); err == nil && ms <= now {
				return true
			}
		}
		return false
	}
	val := func(m map[string]string, k string) string {
		if v, ok := m[k]; ok && !expired(v) {
			return v
		}
		return ""
	}
	inGroup := map[string]bool{}
	for _, g := range groups {
		for _, k := range g.keys {
			inGroup[k] = true
		}
	}
	keys := map[string]bool{}
	for k := range got {
		keys[k] = true
	}
	for k := range before {
		keys[k] = true
	}
	// the rule, parameterised by the equality used for values
	check := func(eq func(x, y string) bool) string {
		for _, g := range groups {
			same := func(ref map[string]string) bool {
				for _, k := range g.keys {
					if !eq(val(got, k), val(ref, k)) {
						return false
					}
				}
				return true
			}
			switch {
			case same(dead):
			case same(before) && !g.acked:
			case g.acked:
				return fmt.Sprintf("keys %v of a command acknowledged before the crash are not restored as the server held them", g.keys)
			default:
				return fmt.Sprintf("keys %v of a command in flight at the crash are restored neither as before nor as after it", g.keys)
			}
		}
		for _, k := range sortedKeys(keys) {
			if !inGroup[k] && !eq(val(got, k), val(before, k)) {
				return fmt.Sprintf("key %s, which no command of the phase names, changed: %q -> %q", k, val(before, k), val(got, k))
			}
		}
		return ""
	}
	problem := check(func(x, y string) bool { return x == y })
	if problem != "" {
		sig := "concurrent-writer/crash"
		switch {
		case check(func(x, y string) bool { return jsonProjection(x) == jsonProjection(y) }) == "":
			// the preamble a rewrite wrote cannot represent every value type (recorded finding): up to that
			// projection the restore is what it has to be
			sig = "retyped-by-preamble"
		case a.rewriteCrashSite != "" || site != "":
			// this rewrite, or an EARLIER one of this history, was interrupted and none has completed since: what is
			// on disk is what those crashes left (recorded findings, by site: the earliest site inside the
			// replacement of the two files is blamed, as in the sequential profile)
			sites := append([]string{}, a.crashSites...)
			if site != "" {
				sites = append(sites, site)
			}
			sig = "rewrite-crash@" + blameSite(sites)
		}
		a.fail(sig, fmt.Sprintf("kill in the middle of REWRITEAOF with concurrent writers (rewrite finished: %v, rewrite task at %q, earlier interrupted rewrite: %q): %s; restored vs live at the crash: %s", rewriteDone, site, a.rewriteCrashSite, problem, DiffData(got, StripMap(dead, now), "restored", "live", 5)))
		return false
	}
	a.states = []map[string]string{a.dump()}
	a.syncedUp = 0
	a.concWriters = false
	// no rewrite has COMPLETED: what an earlier interrupted rewrite left on disk is still there, and this one was
	// interrupted too
	if site != "" {
		a.crashSites = append(a.crashSites, site)
		a.rewriteCrashSite = blameSite(a.crashSites)
	}
	return true
}

// StripMap drops entries whose deadline has passed.
func StripMap(m map[string]string, now int64) map[string]string {
	out := map[string]string{}
	for k, v := range m {
		if i := strings.LastIndex(v, " @"); i >= 0 {
			var ms int64
			if _, err := fmt.Sscan(v[i+2:], &ms); err == nil && ms <= now {
				continue
			}
		}
		out[k] = v
	}
	return out
}
