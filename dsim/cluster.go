package dsim

// Consensus and gossip stub: gives each node's REAL raft.FSM and REAL memberlist.Delegate exactly
// the contract hashicorp/raft and hashicorp/memberlist give them - one ordered committed log applied
// in index order, one Apply at a time per node, at each node's own pace; futures resolved with the
// leader's FSM response; snapshots persisted concurrently with later applies; gossip with loss,
// duplication, reordering - and lets the controller's dice decide every step.

import (
	"bytes"
	"errors"
	"fmt"
	"io"
	"sort"
	"sync"
	"time"

	"github.com/echovault/sugardb/verifhook"
	"github.com/hashicorp/memberlist"
	"github.com/hashicorp/raft"
)

type centry struct {
	index int
	data  []byte
}

type Cluster struct {
	mu       sync.Mutex // guards log/waiters when several tasks run at once (pass-through mode); never held across a yield
	s        *Sim
	nodes    map[string]*CNode
	ids      []string
	log      []centry
	leader   string
	dice     *Dice
	inflight []gmsg
	booting  int // sim instance id of the node being constructed (JoinRaft is called from its constructor)
	Dropped  int
	Dupes    int
	Forwards int
	Dedupe   bool            // idealised gossip layer: a node hears each distinct message once (used while the storm finding is open)
	heard    map[string]bool // to + content hash
}

type gmsg struct {
	from, to string
	data     []byte
	seq      int
}

type CNode struct {
	c         *Cluster
	id        string
	inst      int
	fsm       raft.FSM
	applied   int
	alive     bool
	stale     bool // still believes it is the leader but can no longer commit
	delegate  memberlist.Delegate
	queue     *memberlist.TransmitLimitedQueue
	waiters   map[int]*cfuture
	wake      chan struct{}
	snapReq   int
	snapData  []byte
	snapIndex int
	Panic     string
	gen       int
}

type cfuture struct {
	done chan struct{}
	err  error
	resp interface{}
	idx  uint64
}

func (f *cfuture) Error() error          { <-f.done; return f.err }
func (f *cfuture) Response() interface{} { <-f.done; return f.resp }
func (f *cfuture) Index() uint64         { return f.idx }
func (f *cfuture) resolve(resp interface{}, err error) {
	f.resp, f.err = resp, err
	close(f.done)
}

// NewCluster installs the cluster seam for this simulation.
func (s *Sim) NewCluster(dice *Dice) *Cluster {
	c := &Cluster{s: s, nodes: map[string]*CNode{}, dice: dice}
	verifhook.JoinRaft = func(serverID string, fsm interface{}, bootstrap bool) verifhook.RaftNode {
		return c.joinRaft(serverID, fsm.(raft.FSM), bootstrap)
	}
	verifhook.JoinGossip = func(serverID string, delegate interface{}, queue interface{}) {
		n := c.nodes[serverID]
		if n != nil {
			n.delegate = delegate.(memberlist.Delegate)
			n.queue = queue.(*memberlist.TransmitLimitedQueue)
		}
	}
	verifhook.LeaveGossip = func(serverID string) {}
	return c
}

func (c *Cluster) joinRaft(id string, fsm raft.FSM, bootstrap bool) verifhook.RaftNode {
	old := c.nodes[id]
	n := &CNode{c: c, id: id, inst: c.booting, fsm: fsm, alive: true, waiters: map[int]*cfuture{}, wake: make(chan struct{}, 1)}
	if old != nil {
		n.gen = old.gen + 1
		n.snapData, n.snapIndex = old.snapData, old.snapIndex
	} else {
		c.ids = append(c.ids, id)
		sort.Strings(c.ids)
	}
	c.nodes[id] = n
	if bootstrap && c.leader == "" {
		c.leader = id
	}
	return n
}

// StartNode starts the node's apply task. For a restarted node it first restores a snapshot the dice
// pick among the legal ones (its own latest, the leader's latest, none) and then replays the suffix.
func (c *Cluster) StartNode(id string) {
	n := c.nodes[id]
	if n.gen > 0 || n.snapData != nil {
		var choices []*CNode
		if n.snapData != nil {
			choices = append(choices, n)
		}
		if l := c.nodes[c.leader]; l != nil && l != n && l.snapData != nil {
			choices = append(choices, l)
		}
		k := c.dice.Next(len(choices) + 1)
		if k < len(choices) {
			src := choices[k]
			func() {
				defer func() {
					if r := recover(); r != nil {
						n.Panic = fmt.Sprintf("FSM.Restore panic: %v\n%s", r, shortStack())
					}
				}()
				if err := n.fsm.Restore(io.NopCloser(bytes.NewReader(src.snapData))); err != nil {
					n.Panic = "FSM.Restore: " + err.Error()
				}
			}()
			n.applied = src.snapIndex
			c.s.Probe("restore-from-snapshot")
			if src != n {
				c.s.Probe("restore-foreign-snapshot")
			}
		}
	}
	c.s.Spawn("apply:"+id, n.inst, func() { n.applyLoop() })
}

func (n *CNode) applyLoop() {
	c := n.c
	for n.alive {
		// wait for work without being a scheduling choice
		for n.alive && n.applied >= c.logLen() && n.snapReq == 0 {
			<-n.wake
		}
		if !n.alive {
			return
		}
		c.s.hookYield("raft.apply:" + n.id)
		if !n.alive {
			return
		}
		if n.snapReq > 0 {
			n.snapReq--
			n.takeSnapshot()
			continue
		}
		if n.applied >= c.logLen() {
			continue
		}
		c.mu.Lock()
		e := c.log[n.applied]
		c.mu.Unlock()
		var resp interface{}
		func() {
			defer func() {
				if r := recover(); r != nil {
					n.Panic = fmt.Sprintf("FSM.Apply panic at index %d: %v\n%s", e.index, r, shortStack())
					resp = nil
				}
			}()
			resp = n.fsm.Apply(&raft.Log{Index: uint64(e.index), Term: 1, Type: raft.LogCommand, Data: e.data})
		}()
		n.applied++
		c.mu.Lock()
		f := n.waiters[e.index]
		delete(n.waiters, e.index)
		c.mu.Unlock()
		if f != nil {
			f.resolve(resp, nil)
		}
	}
}

type memSink struct {
	bytes.Buffer
	id        string
	cancelled bool
}

func (m *memSink) ID() string    { return m.id }
func (m *memSink) Cancel() error { m.cancelled = true; return nil }
func (m *memSink) Close() error  { return nil }

// takeSnapshot runs on the apply task (between two applies, as in hashicorp/raft); Persist runs as its own
// task, concurrently with later applies.
func (n *CNode) takeSnapshot() {
	c := n.c
	idx := n.applied
	var snap raft.FSMSnapshot
	var err error
	func() {
		defer func() {
			if r := recover(); r != nil {
				n.Panic = fmt.Sprintf("FSM.Snapshot panic: %v\n%s", r, shortStack())
			}
		}()
		snap, err = n.fsm.Snapshot()
	}()
	if n.Panic != "" || err != nil || snap == nil {
		return
	}
	c.s.Spawn("raft.persist:"+n.id, n.inst, func() {
		c.s.hookYield("raft.persist:" + n.id)
		sink := &memSink{id: fmt.Sprintf("1-%d-%d", idx, time.Now().UnixMilli())}
		func() {
			defer func() {
				if r := recover(); r != nil {
					n.Panic = fmt.Sprintf("FSMSnapshot.Persist panic: %v\n%s", r, shortStack())
				}
			}()
			if perr := snap.Persist(sink); perr == nil && !sink.cancelled {
				n.snapData, n.snapIndex = append([]byte{}, sink.Bytes()...), idx
				c.s.Probe("raft-snapshot-persisted")
			}
			snap.Release()
		}()
	})
}

func (c *Cluster) logLen() int {
	c.mu.Lock()
	defer c.mu.Unlock()
	return len(c.log)
}

func (n *CNode) signal() {
	select {
	case n.wake <- struct{}{}:
	default:
	}
}

// ---- verifhook.RaftNode ------------------------------------------------------

func (n *CNode) Apply(cmd []byte, timeout time.Duration) verifhook.ApplyFuture {
	c := n.c
	f := &cfuture{done: make(chan struct{})}
	switch {
	case !n.alive:
		f.resolve(nil, raft.ErrRaftShutdown)
	case n.stale:
		c.s.Probe("stale-leader-proposal")
		f.resolve(nil, raft.ErrLeadershipLost)
	case c.leader != n.id:
		f.resolve(nil, raft.ErrNotLeader)
	default:
		c.mu.Lock()
		idx := len(c.log) + 1
		c.log = append(c.log, centry{index: idx, data: append([]byte{}, cmd...)})
		f.idx = uint64(idx)
		n.waiters[idx] = f
		c.mu.Unlock()
		for _, id := range c.ids {
			c.nodes[id].signal()
		}
	}
	return f
}

func (n *CNode) IsLeader() bool  { return n.alive && (n.c.leader == n.id || n.stale) }
func (n *CNode) HasJoined() bool { return n.alive && n.c.leader != "" && n.c.leader != n.id }
func (n *CNode) Snapshot() error {
	n.snapReq++
	n.signal()
	return nil
}
func (n *CNode) Shutdown()                      {}
func (n *CNode) AddVoter(id, addr string) error { return nil }
func (n *CNode) RemoveServer(id string) error   { return nil }

// ---- controller-side operations ----------------------------------------------

// Stop marks a node dead (crash or shutdown); pending proposals on it fail.
func (c *Cluster) Stop(id string) {
	n := c.nodes[id]
	if n == nil {
		return
	}
	n.alive = false
	c.mu.Lock()
	ws := n.waiters
	n.waiters = map[int]*cfuture{}
	c.mu.Unlock()
	for _, f := range ws {
		f.resolve(nil, raft.ErrLeadershipLost) // committed entries stay committed: the outcome is indeterminate for the client
	}
	n.signal()
	if c.leader == id {
		c.leader = ""
	}
}

// Elect makes id the leader (leadership transfer / election after a crash).
func (c *Cluster) Elect(id string, leaveStale bool) {
	if old := c.nodes[c.leader]; old != nil && old.id != id {
		old.stale = leaveStale
		for idx, f := range old.waiters {
			// the old leader's pending proposals are committed already (they are in the log): its futures
			// resolve when IT applies them; nothing to do
			_ = idx
			_ = f
		}
	}
	c.leader = id
	if n := c.nodes[id]; n != nil {
		n.stale = false
	}
}

func (c *Cluster) ClearStale() {
	for _, n := range c.nodes {
		n.stale = false
	}
}

// PumpGossip moves every queued broadcast of every live node into the simulated network.
func (c *Cluster) PumpGossip() int {
	moved := 0
	for _, id := range c.ids {
		n := c.nodes[id]
		if !n.alive || n.delegate == nil {
			continue
		}
		for _, m := range n.delegate.GetBroadcasts(0, 1<<20) {
			for _, to := range c.ids {
				if to == id || !c.nodes[to].alive {
					continue
				}
				c.inflight = append(c.inflight, gmsg{from: id, to: to, data: append([]byte{}, m...), seq: len(c.inflight)})
				moved++
			}
		}
	}
	return moved
}

// DeliverOne delivers (or drops / duplicates, per fault knobs) one in-flight gossip message chosen by the dice.
// The delivery runs in its own task because the leader's NotifyMsg proposes to the log and waits for the apply.
func (c *Cluster) DeliverOne(dropPct, dupPct int) bool {
	if len(c.inflight) == 0 {
		return false
	}
	k := c.dice.Next(len(c.inflight))
	m := c.inflight[k]
	c.inflight = append(c.inflight[:k], c.inflight[k+1:]...)
	if dropPct > 0 && c.dice.Next(100) < dropPct {
		c.Dropped++
		c.s.Stats.FaultsFired["gossip-drop"]++
		return true
	}
	if dupPct > 0 && c.dice.Next(100) < dupPct {
		c.Dupes++
		c.s.Stats.FaultsFired["gossip-duplicate"]++
		c.inflight = append(c.inflight, m)
	}
	n := c.nodes[m.to]
	if n == nil || !n.alive || n.delegate == nil {
		return true
	}
	if c.Dedupe {
		if c.heard == nil {
			c.heard = map[string]bool{}
		}
		key := m.to + "|" + string(m.data)
		if c.heard[key] {
			return true
		}
		c.heard[key] = true
	}
	c.s.Spawn("gossip:"+m.to, n.inst, func() {
		defer func() {
			if r := recover(); r != nil {
				n.Panic = fmt.Sprintf("Delegate.NotifyMsg panic: %v\n%s", r, shortStack())
			}
		}()
		n.delegate.NotifyMsg(m.data)
	})
	return true
}

var errNoLeader = errors.New("no leader")
