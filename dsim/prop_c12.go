package dsim

// C12 — wire protocol: one well-formed reply per command, no crash on any input.

import (
	"fmt"
	"strings"
	"testing"
)

func init() {
	register(&PropDef{
		ID:   "C12",
		Rule: "plan = seeded dataset + per-connection command streams (well-formed commands of every registered family with arity/argument mutations, pipelines, segmentations, malformed frames); non-trivial = at least one command executed; distinct = hash of the (command name, arity, input class) sequence",
		Gen:  genC12,
		Run:  runC12,
		Real: []string{"handleConnection read loop", "ReadMessage/Decode framing", "ACL gate", "all command handlers", "embedded ExecuteCommand"},
		Stub: []string{"TCP sockets (simconn byte streams with controlled segmentation)"},
	})
}

var weirdArgs = []string{"", "0", "-1", "1", "2", "abc", "a\r\nb", "\x00x\x00", "9223372036854775807", "-9223372036854775808", "99999999999999999999", "1.5", "nan", "inf", "-inf", "(1", "[a", "-", "+", "LIMIT", "WITHSCORES", "NX", "XX", "*", "k1"}

func mutateArgs(r *Rng, a []string) []string {
	a = append([]string{}, a...)
	switch r.Intn(6) {
	case 0: // drop last args
		n := r.Range(1, len(a))
		a = a[:len(a)-n+1]
		if len(a) == 0 {
			a = []string{"GET"}
		}
	case 1: // append extra
		for i, n := 0, r.Range(1, 3); i < n; i++ {
			a = append(a, Pick(r, weirdArgs))
		}
	case 2: // replace one arg
		if len(a) > 1 {
			a[r.Range(1, len(a)-1)] = Pick(r, weirdArgs)
		}
	case 3: // only the command name
		a = a[:1]
	case 4: // lower-case the name
		a[0] = strings.ToLower(a[0])
	}
	return a
}

var c12Payloads = []string{"", "x", "a\r\nb", "\r\n", "\x00", "\x00lead", "trail\x00", "+OK", "-ERR x", "$5", "*2", ":1",
	strings.Repeat("p", 1023), strings.Repeat("q", 1024), strings.Repeat("r", 1025), strings.Repeat("s", 8150), strings.Repeat("t", 8191), strings.Repeat("u", 8192), strings.Repeat("v", 8193), strings.Repeat("w", 16384), "\xff\xfe binary"}

func genC12(r *Rng, tier string, idx int) *Plan {
	if idx%8 == 0 {
		return genC12Readers(r, tier)
	}
	if idx%8 == 4 {
		// connections issuing SELECT/SWAPDB/FLUSH*/HELLO and data commands concurrently, scheduled by the dice at
		// keyspace, store-lock and connection-table-lock granularity: every command must be answered, no deadlock
		return genConnConc(r, tier, &Plan{Knobs: map[string]int64{}, SKnobs: map[string]string{}})
	}
	switch idx % 4 {
	case 1:
		return genC12Stream(r, tier)
	case 2:
		return genC12Garbage(r, tier)
	case 3:
		return genC12Payload(r, tier)
	}
	p := &Plan{Profile: "cmds", Knobs: map[string]int64{}, SKnobs: map[string]string{}}
	g := &GenCfg{Keys: []string{"k1", "k2", "k3"}, NowMs: 946684800000}
	p.Init = g.SeedOps(r, r.Range(0, 5))
	n := r.Range(5, 30)
	for i := 0; i < n; i++ {
		a := g.Cmd(r)
		if r.Chance(0.5) {
			a = mutateArgs(r, a)
		}
		p.Ops = append(p.Ops, Op{C: r.Intn(2), Args: a})
	}
	return p
}

func inputClass(a []string) string {
	return fmt.Sprintf("%s/%d", strings.ToUpper(a[0]), len(a))
}

func runC12(t *testing.T, p *Plan) *Outcome {
	switch p.Profile {
	case "conn":
		return runConcCore(t, p, "C12")
	case "readers":
		return runC12Readers(t, p)
	case "stream":
		return runC12Stream(t, p)
	case "garbage":
		return runC12Garbage(t, p)
	case "payload":
		return runC12Payload(t, p)
	}
	o := &Outcome{}
	br := RunBubble(t, func() {
		s := NewSim()
		s.install()
		defer s.uninstall()
		inst, err := s.Boot(1, BaseConfig)
		if err != nil {
			o.Sig, o.Detail = "C12/boot-failed", fmt.Sprint(err)
			return
		}
		seed := s.NewEmbeddedClient(inst, "seed")
		for _, op := range p.Init {
			seed.DoSync(op.Args...)
		}
		tcp := s.NewTCPClient(inst, "t")
		probe := s.NewTCPClient(inst, "probe")
		emb := s.NewEmbeddedClient(inst, "e")
		var classes []string
		for i, op := range p.Ops {
			c := tcp
			if op.C == 1 {
				c = emb
			}
			name := strings.ToUpper(op.Args[0])
			classes = append(classes, inputClass(op.Args))
			r := c.DoSync(op.Args...)
			viol := ""
			switch {
			case r.Panic != "":
				viol = "C12/server-panic/" + topRepoFrame(r.Panic)
				o.Detail = fmt.Sprintf("op %d %q: %s", i, op.Args, r.Panic)
			case r.ParseErr != "":
				viol = "C12/malformed-reply/" + name
				o.Detail = fmt.Sprintf("op %d %q: %s: %q", i, op.Args, r.ParseErr, trunc(string(r.Raw), 200))
			case c.TCP && r.NoReply:
				viol = "C12/no-reply/" + name
				o.Detail = fmt.Sprintf("op %d %q: no reply (closed=%v)", i, op.Args, r.Closed)
			case r.Extra > 0:
				viol = "C12/extra-reply/" + name
				o.Detail = fmt.Sprintf("op %d %q: %d extra replies: %q", i, op.Args, r.Extra, trunc(string(r.Raw), 200))
			}
			if viol != "" {
				o.Sig = viol
				break
			}
			// other connections unaffected
			if pr := probe.DoSync("PING"); pr.Panic != "" || pr.NoReply || pr.ParseErr != "" || pr.Reply.Str != "PONG" {
				o.Sig = "C12/other-connection-affected/" + name
				o.Detail = fmt.Sprintf("after op %d %q the probe connection's PING got %s", i, op.Args, pr)
				break
			}
		}
		o.Class = strings.Join(classes, ",")
		o.Stats = s.Stats
		o.Sample = map[string]any{"classes": classes}
	})
	if br.panicVal != nil {
		o.Sig = "C12/harness-panic/" + topRepoFrame(br.stack)
		o.Detail = fmt.Sprintf("%v\n%s", br.panicVal, br.stack)
	}
	return o
}
