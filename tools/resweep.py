#!/usr/bin/env python3
"""resweep.py <prop> [budget_s]: re-derive the open findings of a property from scratch.
Runs the property's exploration against a copy of KNOWN_FINDINGS.json WITHOUT that property's open findings
(so every signature is reported with a freshly shrunk replay file), then prints which recorded open findings
were found again (their new witnesses are under out/<prop>/) and which were not.
Nothing is registered automatically: use tools/finding.py add|fixed afterwards."""
import json, os, subprocess, sys, re
V = "/verif"
prop = sys.argv[1]
budget = sys.argv[2] if len(sys.argv) > 2 else "120"
d = json.load(open(os.path.join(V, "KNOWN_FINDINGS.json")))
openf = {f["signature"]: f for f in d["findings"] if f["property"] == prop and f["status"] == "open"}
tmp = "/dev/shm/kf-%s.json" % prop
json.dump({"findings": [f for f in d["findings"] if not (f["property"] == prop and f["status"] == "open")]}, open(tmp, "w"))
env = dict(os.environ, VERIF_FINDINGS_FILE=tmp, VERIF_BUDGET_S=budget, DSIM_MAXVIOL="400", DSIM_SHRINK_BUDGET=os.environ.get("DSIM_SHRINK_BUDGET", "150"))
p = subprocess.run(["./check", prop, "quick"], cwd=V, env=env, capture_output=True, text=True)
found = {}
cur = None
for l in p.stdout.splitlines():
    m = re.match(r"DETAIL (\S+):", l)
    if m:
        cur = m.group(1)
    m = re.match(r"VIOLATION property=\S+ replay=(\S+)", l)
    if m and cur:
        found[cur] = m.group(1)
        cur = None
print([l for l in p.stdout.splitlines() if l.startswith("SUMMARY")])
json.dump(found, open("/dev/shm/resweep-%s.json" % prop, "w"), indent=1)
print("found again:", len([s for s in found if s in openf]))
print("NEW signatures:", sorted(s for s in found if s not in openf))
print("recorded but not found:", sorted(s for s in openf if s not in found))
