#!/usr/bin/env python3
"""Determinism self-test: the same seed must give the same execution.

  determinism.py [props...]        (default: every claimed property)

For each property, the first N run indices of worker 0 (N = DETERMINISM_RUNS, default 60) are executed in
P separate OS processes (DETERMINISM_PROCS, default 12) spread over GOMAXPROCS 1, 4 and 16, several of them at
the same time (so that machine load differs), and the per-run trace lines

    index seed signature schedule-hash event-hash steps class-hash sample-hash detail-hash

are compared across processes. 'event-hash' folds EVERY controller event (released task id + site, number of
parked tasks after the step, clock advances). A run index whose line differs between two processes is a
divergence. Results go to /verif/determinism/RESULTS.json (committed; not an evidence file).
Exit 0 = no divergence; 1 = divergences (listed)."""
import json, os, subprocess, sys, tempfile, shutil, time
from concurrent.futures import ThreadPoolExecutor
V = "/verif"
sys.path.insert(0, V)
ENV = dict(os.environ, GOFLAGS="-mod=mod", GOPROXY="off", GOSUMDB="off", GOTOOLCHAIN="local")
claims = json.load(open(V + "/tools/claims.json"))
props = sys.argv[1:] or sorted(k for k, v in claims.items() if v.get("claimed"))
N = int(os.environ.get("DETERMINISM_RUNS", "60"))
P = int(os.environ.get("DETERMINISM_PROCS", "12"))
seed = os.environ.get("VERIF_SEED", "1")
binary = V + "/bin/dsim-manual"
if not os.path.exists(binary) or os.environ.get("DETERMINISM_REBUILD"):
    subprocess.run([V + "/check", "build"], check=True, env=ENV)
scratch = tempfile.mkdtemp(prefix="dsim-det-", dir="/dev/shm")
res_all = {"seed": int(seed), "runs_per_process": N, "processes": P, "gomaxprocs": [1, 4, 16], "properties": {}}
bad = 0


def one(prop, k):
    out = os.path.join(scratch, "%s-%d" % (prop, k))
    tf = out + ".trace"
    e = dict(ENV, DSIM_PROP=prop, DSIM_TIER="quick", DSIM_SEED=seed, DSIM_MODE="worker", DSIM_WORKER="0", DSIM_OUT=out,
             DSIM_RUNS=str(N), DSIM_BUDGET_MS="600000", DSIM_TRACE=tf, DSIM_NOSHRINK="1", DSIM_MAXVIOL="100000",
             DSIM_REPLAY_DIR=out + ".replays", DSIM_FINDINGS=V + "/KNOWN_FINDINGS.json", DSIM_SCRATCH=scratch,
             GOMAXPROCS=str([1, 4, 16][k % 3]))
    p = subprocess.run([binary, "-test.run", "^TestWorker$", "-test.timeout", "900s"], cwd=V, env=e,
                       stdout=subprocess.DEVNULL, stderr=subprocess.PIPE, text=True)
    lines = open(tf).read().splitlines() if os.path.exists(tf) else []
    return k, p.returncode, lines


for prop in props:
    t0 = time.time()
    with ThreadPoolExecutor(max_workers=min(P, 12)) as ex:
        outs = list(ex.map(lambda k: one(prop, k), range(P)))
    ref = None
    div = []
    short = []
    for k, rc, lines in outs:
        m = {}
        for l in lines:
            i = l.split(" ", 1)[0]
            m.setdefault(i, l)  # first execution of an index (re-runs for confirmation repeat the index)
        if len(m) < N:
            short.append({"process": k, "lines": len(m), "rc": rc})
        if ref is None:
            ref = m
            continue
        for i in sorted(set(ref) | set(m), key=int):
            if ref.get(i) != m.get(i) and i in ref and i in m:
                div.append({"process": k, "gomaxprocs": [1, 4, 16][k % 3], "index": int(i), "ref": ref.get(i), "got": m.get(i)})
    nviol = sum(1 for l in (ref or {}).values() if 'sig=""' not in l)
    by_g = {}
    for d in div:
        by_g[str(d["gomaxprocs"])] = by_g.get(str(d["gomaxprocs"]), 0) + 1
    res_all["properties"][prop] = {"indices_compared": len(ref or {}), "processes": len(outs), "divergent_lines": len(div), "divergent_lines_by_gomaxprocs": by_g,
                                   "divergences": div[:10], "incomplete_processes": short, "runs_with_a_signature": nviol,
                                   "wall_s": round(time.time() - t0, 1)}
    print("%s: %d indices x %d processes, divergent lines: %d, incomplete: %d (%.0fs)" % (prop, len(ref or {}), len(outs), len(div), len(short), time.time() - t0))
    for d in div[:3]:
        print("   DIVERGENCE idx %d (process %d, GOMAXPROCS %d)\n     ref %s\n     got %s" % (d["index"], d["process"], d["gomaxprocs"], d["ref"][:300], d["got"][:300]))
    bad += len(div) + len(short)
shutil.rmtree(scratch, ignore_errors=True)
os.makedirs(V + "/determinism", exist_ok=True)
old = {}
rp = V + "/determinism/RESULTS.json"
if os.path.exists(rp) and sys.argv[1:]:
    old = json.load(open(rp)).get("properties", {})
    old.update(res_all["properties"])
    res_all["properties"] = old
json.dump(res_all, open(rp, "w"), indent=1)
sys.exit(1 if bad else 0)
