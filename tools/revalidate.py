#!/usr/bin/env python3
"""revalidate.py: does every witness of a FIXED finding still fail without its fix?

For every commit named by a fixed entry of KNOWN_FINDINGS.json: reverse-apply that commit alone to the repository
(working tree only; skipped if it no longer reverse-applies because later commits touched the same lines), replay
the witnesses recorded for it, restore the tree. A witness that passes although its fix is gone no longer guards
anything (later fixes may cover the same history, or may have changed it) and should be re-derived.

Meant for `vp run --with-repo -- python3 tools/revalidate.py`: with VP_RUN_REPO set the snapshot's go.mod is pointed
at the repository snapshot, /repo itself is never touched. Result: /dev/shm/revalidate.json (not evidence)."""
import json, os, re, subprocess, sys
V = os.path.dirname(os.path.dirname(os.path.abspath(__file__)))
REPO = os.environ.get("VP_RUN_REPO") or "/repo"
if REPO != "/repo":
    gm = open(os.path.join(V, "go.mod")).read()
    gm = re.sub(r"(github.com/echovault/sugardb => )\S+", r"\g<1>" + REPO, gm)
    open(os.path.join(V, "go.mod"), "w").write(gm)
env = dict(os.environ, GOFLAGS="-mod=mod", GOPROXY="off", GOSUMDB="off")
def sh(cmd, cwd=V):
    p = subprocess.run(cmd, shell=True, cwd=cwd, env=env, capture_output=True, text=True)
    return p.returncode, p.stdout + p.stderr
assert sh("git -C %s status --porcelain" % REPO)[1].strip() == "", "repository not clean"
kf = json.load(open(os.path.join(V, "KNOWN_FINDINGS.json")))["findings"]
by = {}
for f in kf:
    if f.get("status") == "fixed" and f.get("commit") and f.get("witness"):
        by.setdefault(f["commit"], []).append(f)
only = sys.argv[1:]
res = {}
for c, fs in sorted(by.items()):
    if only and c not in only:
        continue
    rc, o = sh("git -C %s show %s | git -C %s apply -R" % (REPO, c, REPO))
    if rc != 0:
        res[c] = {"reverse_applies": False, "witnesses": len(fs)}
        print(c, "does not reverse-apply any more (%d witnesses)" % len(fs), flush=True)
        sh("git -C %s checkout -- ." % REPO)
        continue
    out = {}
    try:
        for f in fs:
            rc, o = sh("./check %s --replay %s" % (f["property"], f["witness"]))
            m = re.search(r'REPLAY signature="([^"]*)" expected="([^"]*)"', o)
            got = m.group(1) if m else ("exit %d" % rc)
            out[f["witness"]] = {"expected": f["signature"], "got": got, "fails_without_fix": bool(got) and got != "", "same_signature": got == f["signature"]}
            if "process crash" in o:
                out[f["witness"]]["fails_without_fix"] = True
    finally:
        sh("git -C %s checkout -- ." % REPO)
    res[c] = {"reverse_applies": True, "witnesses": out}
    bad = [w for w, r in out.items() if not r["fails_without_fix"]]
    print(c, "%d witnesses, %d no longer fail without the fix" % (len(out), len(bad)), bad[:3], flush=True)
    json.dump(res, open("/dev/shm/revalidate.json", "w"), indent=1)
json.dump(res, open("/dev/shm/revalidate.json", "w"), indent=1)
print("DONE")
