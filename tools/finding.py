#!/usr/bin/env python3
"""Maintain /verif/KNOWN_FINDINGS.json (never called by checks at run time).
  finding.py add <replay.json> <what...>          record an open finding with its witness
  finding.py fixed <signature> <commit> [what]    mark as fixed by a fix: commit in /repo
  finding.py list
"""
import json, sys, os, shutil, hashlib
V = "/verif"
KF = os.path.join(V, "KNOWN_FINDINGS.json")
d = json.load(open(KF)) if os.path.exists(KF) else {"findings": []}

def save():
    d["findings"].sort(key=lambda f: (f["property"], f["signature"]))
    json.dump(d, open(KF, "w"), indent=1)

cmd = sys.argv[1]
if cmd == "add":
    plan = json.load(open(sys.argv[2]))
    sig = plan["expect_signature"]
    prop = plan["prop"]
    what = " ".join(sys.argv[3:])
    os.makedirs(os.path.join(V, "findings"), exist_ok=True)
    name = "%s-%s.json" % (prop, hashlib.sha1(sig.encode()).hexdigest()[:10])
    # an entry that was FIXED under this signature stays (with its own witness): the same symptom can have a new cause
    kept_fixed = [f for f in d["findings"] if f["signature"] == sig and f.get("status") == "fixed"]
    if kept_fixed:
        name = name.replace(".json", "-%d.json" % (len(kept_fixed) + 1))
    plan["no_avoid"] = True
    json.dump(plan, open(os.path.join(V, "findings", name), "w"), indent=1)
    d["findings"] = [f for f in d["findings"] if f["signature"] != sig or f.get("status") == "fixed"]
    d["findings"].append({"property": prop, "signature": sig, "status": "open", "what": what, "witness": "findings/" + name})
    save()
    print("added", sig)
elif cmd == "fixed":
    sig, commit = sys.argv[2], sys.argv[3]
    for f in d["findings"]:
        if f["signature"] == sig and f.get("status") != "fixed":  # an earlier fixed entry of the same signature keeps its commit
            f["status"] = "fixed"
            f["commit"] = commit
            if len(sys.argv) > 4:
                f["what"] = " ".join(sys.argv[4:])
            print("fixed: property=%s %s %s" % (f["property"], commit, f["what"]))
    save()
elif cmd == "list":
    for f in d["findings"]:
        print(f["status"], f["property"], f["signature"], "-", f["what"][:100])
