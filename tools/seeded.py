#!/usr/bin/env python3
"""seeded.py <PROP> <mutation dir> <name> [check props...]
Confirm a seeded change written by a sub-agent (demo fails with / passes without), store it under
/verif/seeded/<name>/ and run the quick check(s) against it.
<mutation dir> = <worktree>/_mutation[/a|/b] holding patch.diff, meta.json (demo_cmd, optional demo_files) and the demo.
/repo must be clean (committed); it is left clean."""
import sys, os, json, subprocess, shutil, re, glob
prop, mdir, name = sys.argv[1], sys.argv[2].rstrip("/"), sys.argv[3]
checks = sys.argv[4:] or [prop]
wt = mdir[:mdir.index("/_mutation")]
env = dict(os.environ, GOFLAGS="-mod=mod", GOPROXY="off", GOSUMDB="off")
meta = json.load(open(os.path.join(mdir, "meta.json")))
patch = os.path.join(mdir, "patch.diff")
def sh(cmd, cwd=wt, timeout=3000):
    p = subprocess.run(cmd, shell=True, cwd=cwd, env=env, capture_output=True, text=True, timeout=timeout)
    return p.returncode, (p.stdout + p.stderr)
rc, o = sh("git -C /repo status --porcelain")
assert o.strip() == "", "/repo is not clean:\n" + o
rc, o = sh("git status --porcelain --untracked-files=no")
assert o.strip() == "", "worktree has source changes:\n" + o
placed = []
for fn, rel in (meta.get("demo_files") or {}).items():
    dst = os.path.join(wt, rel)
    if os.path.isdir(dst) or rel.endswith("/"):
        dst = os.path.join(dst, fn)
    os.makedirs(os.path.dirname(dst), exist_ok=True)
    shutil.copy(os.path.join(mdir, fn), dst)
    placed.append(dst)
demo = meta["demo_cmd"]
demo = re.sub(r"^cd \S+ && ", "", demo)
demo = re.sub(r"export [^&]*&& ", "", demo)
try:
    rc, o = sh("git apply %s" % patch)
    assert rc == 0, "patch does not apply: " + o
    rc_with, out_with = sh(demo)
    rc, _ = sh("git apply -R %s" % patch)
    assert rc == 0, "cannot reverse patch"
    rc_without, out_without = sh(demo)
finally:
    sh("git checkout -- .")
    for f in placed:
        os.remove(f)
print("demo with change: rc=%d ; without: rc=%d" % (rc_with, rc_without))
if rc_with == 0 or rc_without != 0:
    print("NOT CONFIRMED\n--- with:\n", out_with[-1500:], "\n--- without:\n", out_without[-1500:])
res = {"demo_fails_with": rc_with != 0, "demo_passes_without": rc_without == 0}
dst = os.path.join("/verif/seeded", name)
if os.path.exists(os.path.join(dst, "patch.diff")) and open(os.path.join(dst, "patch.diff")).read() != open(patch).read() \
        and not os.path.exists(os.path.join(dst, "patch.orig.diff")):
    # another change was stored under this name earlier (two agents had the same idea): keep both
    k = 2
    while os.path.exists("%s-%d" % (dst, k)):
        k += 1
    dst = "%s-%d" % (dst, k)
    print("name taken, storing as", os.path.basename(dst))
os.makedirs(dst, exist_ok=True)
for f in glob.glob(os.path.join(mdir, "*")):
    if os.path.isfile(f):
        shutil.copy(f, dst)
rc, o = sh("git -C /repo apply %s" % patch, cwd="/verif")
assert rc == 0, o
det = {}
try:
    for c in checks:
        rc, o = sh("VERIF_BUDGET_S=%s ./check %s quick" % (os.environ.get("SEED_BUDGET", "25"), c), cwd="/verif")
        sigs = re.findall(r"^DETAIL (\S+):", o, re.M)
        det[c] = {"exit": rc, "violations": sorted(set(sigs))[:12]}
        print(c, "exit", rc, sorted(set(sigs))[:6])
        if rc == 2:
            print(o[-2000:])
finally:
    sh("git -C /repo checkout -- .", cwd="/verif")
meta.update({"confirmed": res, "detected_by": det, "worktree_base": subprocess.run("git -C /repo log --format=%h -1", shell=True, capture_output=True, text=True).stdout.strip()})
json.dump(meta, open(os.path.join(dst, "meta.json"), "w"), indent=1)
