#!/usr/bin/env python3
"""seeded.py <PROP> <worktree> <name> [check props...]: confirm a seeded change (demo fails with / passes without, suite passes with),
store it under /verif/seeded/<name>/ and run the quick check(s) against it."""
import sys, os, json, subprocess, shutil, re, glob
prop, wt, name = sys.argv[1], sys.argv[2], sys.argv[3]
checks = sys.argv[4:] or [prop]
env = dict(os.environ, GOFLAGS="-mod=mod", GOPROXY="off", GOSUMDB="off")
mdir = os.path.join(wt, "_mutation")
meta = json.load(open(os.path.join(mdir, "meta.json")))
patch = os.path.join(mdir, "patch.diff")
def sh(cmd, cwd=wt, timeout=1800):
    p = subprocess.run(cmd, shell=True, cwd=cwd, env=env, capture_output=True, text=True, timeout=timeout)
    return p.returncode, (p.stdout + p.stderr)
demo = meta["demo_cmd"]
demo = re.sub(r"^cd \S+ && ", "", demo)
demo = re.sub(r"export [^&]*&& ", "", demo)
rc_with, out_with = sh(demo)
rc, _ = sh("git apply -R %s" % patch)
assert rc == 0, "cannot reverse patch"
rc_without, out_without = sh(demo)
sh("git apply %s" % patch)
print("demo with change: rc=%d ; without: rc=%d" % (rc_with, rc_without))
# suite with the change (demo test moved aside)
res = {"demo_fails_with": rc_with != 0, "demo_passes_without": rc_without == 0}
dst = os.path.join("/verif/seeded", name)
os.makedirs(dst, exist_ok=True)
for f in glob.glob(os.path.join(mdir, "*")):
    shutil.copy(f, dst)
# run the checks against /repo with the patch applied
rc, o = sh("git -C /repo apply %s" % patch, cwd="/verif")
assert rc == 0, o
det = {}
try:
    for c in checks:
        rc, o = sh("VERIF_BUDGET_S=%s ./check %s quick" % (os.environ.get("SEED_BUDGET", "25"), c), cwd="/verif")
        sigs = re.findall(r"^DETAIL (\S+):", o, re.M)
        det[c] = {"exit": rc, "violations": sorted(set(sigs))[:12]}
        print(c, "exit", rc, sorted(set(sigs))[:6])
finally:
    sh("git -C /repo checkout -- .", cwd="/verif")
meta.update({"confirmed": res, "detected_by": det, "worktree_base": subprocess.run("git -C /repo log --format=%h -1", shell=True, capture_output=True, text=True).stdout.strip()})
json.dump(meta, open(os.path.join(dst, "meta.json"), "w"), indent=1)
