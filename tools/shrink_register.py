#!/usr/bin/env python3
"""shrink_register.py <prop> <dir with unshrunk replay files> : shrink each in parallel and register as open finding"""
import sys, os, json, glob, subprocess, concurrent.futures as cf
prop, d = sys.argv[1], sys.argv[2]
what_tpl = sys.argv[3] if len(sys.argv) > 3 else "%s"
env = dict(os.environ, GOMAXPROCS="1", DSIM_MODE="shrink", DSIM_PROP=prop)
binary = "/verif/bin/dsim-" + prop
def work(f):
    out = f + ".min"
    e = dict(env, DSIM_REPLAY=f, DSIM_OUT=out, DSIM_SCRATCH="/dev/shm/shr-%d" % os.getpid())
    p = subprocess.run([binary, "-test.run", "^TestWorker$", "-test.timeout", "30m"], env=e, cwd="/verif", capture_output=True, text=True)
    return f, out if os.path.exists(out) else None, p.stdout[-200:]
files = sorted(glob.glob(os.path.join(d, "*.json")))
with cf.ThreadPoolExecutor(16) as ex:
    for f, out, log in ex.map(work, files):
        if not out:
            print("no shrink result for", f, log); continue
        plan = json.load(open(out))
        sig = plan["expect_signature"]
        name = sig.split("/")[-1]
        subprocess.run(["/verif/tools/finding.py", "add", out, what_tpl % name], stdout=subprocess.DEVNULL)
        print("registered", sig, "ops", len(plan.get("ops", [])), "init", len(plan.get("init", [])))
