#!/usr/bin/env python3
"""Regression matrix: apply every seeded change under /verif/seeded to /repo (working tree only), run the quick
tier of the property's check, undo it, and report which are detected.   seeded_matrix.py [name-filter]
Writes /verif/seeded/MATRIX.json. /repo must be clean; it is left clean."""
import json, os, subprocess, sys, glob, re
V = "/verif"
flt = sys.argv[1] if len(sys.argv) > 1 else ""
env = dict(os.environ, GOFLAGS="-mod=mod", GOPROXY="off", GOSUMDB="off")
def sh(cmd, cwd=V, timeout=3600):
    p = subprocess.run(cmd, shell=True, cwd=cwd, env=env, capture_output=True, text=True, timeout=timeout)
    return p.returncode, p.stdout + p.stderr
rc, o = sh("git -C /repo status --porcelain")
assert o.strip() == "", "/repo is not clean:\n" + o
res = {}
mp = os.path.join(V, "seeded", "MATRIX.json")
if flt and os.path.exists(mp):
    res = json.load(open(mp))
for d in sorted(glob.glob(os.path.join(V, "seeded", "*"))):
    name = os.path.basename(d)
    if not os.path.isdir(d) or flt not in name:
        continue
    prop = name.split("-")[0]
    patch = os.path.join(d, "patch.diff")
    rc, o = sh("git -C /repo apply %s" % patch)
    if rc != 0:
        res[name] = {"applies": False, "error": o[-300:]}
        print(name, "PATCH DOES NOT APPLY")
        continue
    try:
        rc, o = sh("VERIF_BUDGET_S=%s ./check %s quick" % (os.environ.get("SEED_BUDGET", "25"), prop))
        sigs = sorted(set(re.findall(r"^DETAIL (\S+):", o, re.M)))
        res[name] = {"applies": True, "check": prop, "exit": rc, "detected": rc == 1, "signatures": sigs[:8]}
        print(name, "exit", rc, sigs[:4])
    finally:
        sh("git -C /repo checkout -- .")
head = subprocess.run("git -C /repo log --format=%h -1", shell=True, capture_output=True, text=True).stdout.strip()
json.dump({"repo_head": head, "results": res} if not flt else res, open(mp, "w"), indent=1)
missed = [n for n, r in (res.items()) if isinstance(r, dict) and not r.get("detected")]
print("missed:", missed)
