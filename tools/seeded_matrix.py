#!/usr/bin/env python3
"""Regression matrix: apply every seeded change under seeded/ to the repository (working tree only), run the quick
tier of the property's check, undo it, and report which are detected.   seeded_matrix.py [name-filter]
Writes seeded/MATRIX.json next to this tool's tree. The repository must be clean; it is left clean.
Under `vp run --with-repo` ($VP_RUN_REPO set) the repository snapshot is used and the snapshot's go.mod is pointed at
it, so /repo itself is never touched; the result is also copied to /dev/shm/MATRIX.json."""
import json, os, subprocess, sys, glob, re, shutil
V = os.path.dirname(os.path.dirname(os.path.abspath(__file__)))
REPO = os.environ.get("VP_RUN_REPO") or "/repo"
if REPO != "/repo":
    gm = open(os.path.join(V, "go.mod")).read()
    gm = re.sub(r"(github.com/echovault/sugardb => )\S+", r"\g<1>" + REPO, gm)
    open(os.path.join(V, "go.mod"), "w").write(gm)
flt = sys.argv[1] if len(sys.argv) > 1 else ""
only = set(filter(None, os.environ.get("MATRIX_NAMES", "").split(",")))  # exact names; results merged into the existing file
if os.environ.get("MATRIX_MISSING"):
    # every change that the existing MATRIX.json does not list as detected (new, ported or missed ones)
    try:
        old = json.load(open(os.path.join(V, "seeded", "MATRIX.json")))["results"]
    except Exception:
        old = {}
    only = {os.path.basename(d) for d in glob.glob(os.path.join(V, "seeded", "*")) if os.path.isdir(d) and not old.get(os.path.basename(d), {}).get("detected")}
env = dict(os.environ, GOFLAGS="-mod=mod", GOPROXY="off", GOSUMDB="off")
def sh(cmd, cwd=V, timeout=3600):
    p = subprocess.run(cmd, shell=True, cwd=cwd, env=env, capture_output=True, text=True, timeout=timeout)
    return p.returncode, p.stdout + p.stderr
rc, o = sh("git -C %s status --porcelain" % REPO)
assert o.strip() == "", REPO + " is not clean:\n" + o
res = {}
mp = os.path.join(V, "seeded", "MATRIX.json")
if (flt or only) and os.path.exists(mp):
    res = json.load(open(mp)).get("results", {})
for d in sorted(glob.glob(os.path.join(V, "seeded", "*"))):
    name = os.path.basename(d)
    if not os.path.isdir(d) or flt not in name or (only and name not in only):
        continue
    prop = name.split("-")[0]
    patch = os.path.join(d, "patch.diff")
    rc, o = sh("git -C %s apply %s" % (REPO, patch))
    if rc != 0:
        res[name] = {"applies": False, "error": o[-300:]}
        print(name, "PATCH DOES NOT APPLY", flush=True)
        continue
    try:
        # the check of the property the change was written against first; if that one is quiet, the checks of other
        # properties that seeded.py recorded as detecting it (meta.json detected_by)
        checks = [prop]
        try:
            db = json.load(open(os.path.join(d, "meta.json"))).get("detected_by", {})
            checks += [k for k, v in db.items() if k != prop and v.get("exit") == 1]
        except Exception:
            pass
        for chk in checks:
            rc, o = sh("VERIF_BUDGET_S=%s ./check %s quick" % (os.environ.get("SEED_BUDGET", "25"), chk))
            sigs = sorted(set(re.findall(r"^DETAIL (\S+):", o, re.M)))
            res[name] = {"applies": True, "check": chk, "exit": rc, "detected": rc == 1, "signatures": sigs[:8]}
            print(name, chk, "exit", rc, sigs[:4], flush=True)
            if rc == 2:
                print(o[-1500:], flush=True)
            if rc == 1:
                break
    finally:
        sh("git -C %s checkout -- ." % REPO)
head = subprocess.run("git -C %s log --format=%%h -1" % REPO, shell=True, capture_output=True, text=True).stdout.strip()
json.dump({"repo_head": head, "results": res}, open(mp, "w"), indent=1)
shutil.copy(mp, "/dev/shm/MATRIX.json")
missed = [n for n, r in (res.items()) if isinstance(r, dict) and not r.get("detected")]
print("missed:", missed)
