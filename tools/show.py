#!/usr/bin/env python3
import json,glob,sys
prop=sys.argv[1]; filt=sys.argv[2] if len(sys.argv)>2 else ''
n=int(sys.argv[3]) if len(sys.argv)>3 else 250
for f in sorted(glob.glob('/verif/out/%s/*.json'%prop)):
    p=json.load(open(f))
    if filt not in p.get('expect_signature',''): continue
    def fmt(o):
        k=o.get('k','')
        if k=='': return 'c%d:%s'%(o.get('c',0),' '.join(o.get('a',[])))
        return '%s(%s%s%s)'%(k, o.get('s',''), ',' if 's' in o and 'n' in o else '', o.get('n',''))
    print(p['expect_signature'], '|', f.split('/')[-1], p.get('profile',''), p.get('sknobs',''), p.get('knobs',''))
    if p.get('init'): print('   init:', ' ; '.join(fmt(o) for o in p['init']))
    print('   ops :', ' ; '.join(fmt(o) for o in p.get('ops',[])))
    print('   ', p.get('detail','')[:n].replace('\n',' | '))
