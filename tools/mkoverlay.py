#!/usr/bin/env python3
"""mkoverlay.py <outdir>: build a `go build -overlay` description that instruments the standard library's package os
for the simulation harness: os.VerifFSHook (nil by default) is called BEFORE every mutating file-system operation
(Rename, Remove, OpenFile with a writing flag, File.Write, File.Sync, File.Truncate, Mkdir), so that the simulator can
place a crash between any two file-system operations of the system under test - also operations that carry no
verifhook call of their own. The copies are generated from the installed toolchain's sources at build time; nothing
outside <outdir> is touched. Prints the path of overlay.json."""
import json, os, re, subprocess, sys
out = os.path.abspath(sys.argv[1])
goroot = subprocess.run(["go1.26.8", "env", "GOROOT"], capture_output=True, text=True, env=dict(os.environ, GOTOOLCHAIN="local")).stdout.strip()
src = os.path.join(goroot, "src", "os")
os.makedirs(os.path.join(out, "os"), exist_ok=True)
H = "\tif h := VerifFSHook; h != nil {\n\t\th(%s)\n\t}\n"
patches = {
    "file.go": [
        (r"func \(f \*File\) Write\(b \[\]byte\) \(n int, err error\) \{\n", "\tif f != nil {\n\t\tif h := VerifFSHook; h != nil {\n\t\t\th(\"write\", f.name, \"\")\n\t\t}\n\t}\n", "after"),
        (r"func Mkdir\(name string, perm FileMode\) error \{\n", H % '"mkdir", name, ""', "after"),
        (r"func OpenFile\(name string, flag int, perm FileMode\) \(\*File, error\) \{\n", "\tif flag&(O_WRONLY|O_RDWR|O_CREATE|O_TRUNC|O_APPEND) != 0 {\n" + (H % '"open", name, ""').replace("\t", "\t\t", 1).replace("\n\t", "\n\t\t") + "\t}\n", "after"),
        (r"func Rename\(oldpath, newpath string\) error \{\n", H % '"rename", oldpath, newpath', "after"),
    ],
    "file_unix.go": [
        (r"func Remove\(name string\) error \{\n", H % '"remove", name, ""', "after"),
    ],
    "file_posix.go": [
        (r"func \(f \*File\) Sync\(\) error \{\n", "\tif f != nil {\n\t\tif h := VerifFSHook; h != nil {\n\t\t\th(\"sync\", f.name, \"\")\n\t\t}\n\t}\n", "after"),
        (r"func \(f \*File\) Truncate\(size int64\) error \{\n", "\tif f != nil {\n\t\tif h := VerifFSHook; h != nil {\n\t\t\th(\"truncate\", f.name, \"\")\n\t\t}\n\t}\n", "after"),
    ],
}
replace = {}
for fn, ps in patches.items():
    s = open(os.path.join(src, fn)).read()
    for pat, ins, _ in ps:
        m = re.search(pat, s)
        assert m, (fn, pat)
        s = s[:m.end()] + ins + s[m.end():]
    dst = os.path.join(out, "os", fn)
    open(dst, "w").write(s)
    replace[os.path.join(src, fn)] = dst
hook = os.path.join(out, "os", "zz_verif_hook.go")
open(hook, "w").write("""package os

// VerifFSHook, when set, is called before every mutating file-system operation (simulation harness only;
// this file and the calls exist only in the harness build, through `go build -overlay`).
var VerifFSHook func(op, name, name2 string)
""")
replace[os.path.join(src, "zz_verif_hook.go")] = hook
oj = os.path.join(out, "overlay.json")
json.dump({"Replace": replace}, open(oj, "w"), indent=1)
print(oj)
