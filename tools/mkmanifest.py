#!/usr/bin/env python3
"""Regenerate MANIFEST.json from tools/claims.json (claimed checks) + properties.jsonl."""
import json, subprocess
V="/verif"
props=[json.loads(l) for l in open(V+"/properties.jsonl")]
claims=json.load(open(V+"/tools/claims.json"))
hooks_commits=subprocess.run(["git","-C","/repo","log","--format=%h %s"],capture_output=True,text=True).stdout.splitlines()
src=[l.split()[0] for l in hooks_commits if l.split(" ",1)[1].startswith("verif hooks")]
checks=[];na=[]
for p in props:
    c=claims.get(p["id"])
    if c and c.get("claimed"):
        checks.append({"property_id":p["id"],"quick_cmd":"./check %s quick"%p["id"],"thorough_cmd":"./check %s thorough"%p["id"],
            "evidence_file":"/verif/evidence/%s.json"%p["id"],"replay_cmd_template":"./check %s --replay {path}"%p["id"],"engine":"dsim",
            "level_claimed":{"category":"exploration","text":c["text"],"design_ref":c.get("design_ref","DESIGN.md §7")},
            "level_note":c["note"],"technique":c.get("technique","deterministic simulation with fault injection (seeded schedule/fault search)")})
    else:
        na.append({"property_id":p["id"],"reason":(c or {}).get("reason","not yet claimed: check under construction")})
m={"version":1,
 "setup_cmd":"cd /verif && ./check build",
 "hooks":{"guard":"verif","enable":"go test -c -tags verif (the harness module /verif replaces github.com/echovault/sugardb => /repo and compiles the current working tree)",
          "baseline_off_cmd":"cd /repo && GOFLAGS=-mod=mod go test -vet=off -count=1 -timeout 25m ./...","source_commits":src,"add_only":False},
 "engines":[{"name":"dsim","path":"/verif/dsim","serves_properties":[c["property_id"] for c in checks],
   "kind_free_text":"deterministic simulator: testing/synctest bubble + yield-hook controller + simulated connections + shadow-durability disk; seeded plans, shrinking, exact replay"}],
 "checks":checks,
 "notes":"Known genuine defects are listed in /verif/KNOWN_FINDINGS.json (open = reported as KNOWN-FINDING lines; fixed = repaired by a fix: commit in /repo and guarded by a witness replay). add_only is false because of a dozen rewritten lines, all of the same kind: the declarations and zero-value constructors of six locks (store lock, write-commit mutex, connection table, ACL user list, pub/sub channel list and subscriber map) name verifhook.RWMutex / verifhook.Mutex (or storeRWMutex) instead of sync.RWMutex / sync.Mutex; without the verif tag these are type ALIASES of the sync types (verifhook/lock_off.go, sugardb/storelock.go), with it they are wrappers whose acquisitions are scheduling points and which tell the harness who holds the lock; everything else the hook commits do is added lines (including the '//go:build !verif' line on internal/raft/raft.go and internal/memberlist/memberlist.go, whose verif-only twins register the real FSM and gossip delegate with the simulator). See DESIGN.md §4.",
 "not_applicable":na}
json.dump(m,open(V+"/MANIFEST.json","w"),indent=1)
print("claimed:",[c["property_id"] for c in checks])
