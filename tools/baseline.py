#!/usr/bin/env python3
"""Run the pinned test suite (guard OFF) in a repo dir and compare with BASELINE.json stable_pass.
usage: baseline.py [repo_dir]   exit 0 iff every stable_pass test passed."""
import json, subprocess, sys, os
repo = sys.argv[1] if len(sys.argv) > 1 else "/repo"
base = json.load(open("/root/.vp/BASELINE.json"))
env = dict(os.environ, GOFLAGS="-mod=mod", GOPROXY="off", GOSUMDB="off")
p = subprocess.run(["go", "test", "-json", "-vet=off", "-count=1", "-timeout", "25m", "./..."],
                   cwd=repo, env=env, stdout=subprocess.PIPE, stderr=subprocess.DEVNULL, text=True)
res = {}
for line in p.stdout.splitlines():
    try:
        e = json.loads(line)
    except Exception:
        continue
    if e.get("Action") in ("pass", "fail", "skip") and e.get("Test"):
        res[e["Package"] + "::" + e["Test"]] = e["Action"]
missing = [t for t in base["stable_pass"] if res.get(t) != "pass"]
print("stable_pass=%d passed_now=%d not_passing=%d" % (len(base["stable_pass"]), sum(1 for v in res.values() if v == "pass"), len(missing)))
for t in missing[:40]:
    print("NOT PASSING:", t, res.get(t))
sys.exit(1 if missing else 0)
