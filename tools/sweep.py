#!/usr/bin/env python3
"""Seed sweep: run `./check <prop> <tier>` for a list of seeds and properties and record exit codes and
VIOLATION/NOTE lines.   sweep.py <tier> <seed-from> <seed-to> [props...]     (env VERIF_BUDGET_S honoured)

Meant for `vp run --with-repo -- python3 tools/sweep.py ...`: when VP_RUN_REPO is set the snapshot's go.mod is
pointed at that repository snapshot, so that seeded changes applied to /repo meanwhile do not disturb the sweep.
Results: sweep-<tier>-<from>-<to>.json in the working directory; failing replay files are copied to sweep-out/.
Not evidence (see TOOLS.md): anything it finds is re-run in /verif."""
import json, os, re, shutil, subprocess, sys, time
here = os.path.dirname(os.path.dirname(os.path.abspath(__file__)))
tier, a, b = sys.argv[1], int(sys.argv[2]), int(sys.argv[3])
props = sys.argv[4:] or "C02 C03 C04 C05 C06 C07 C08 C09 C10 C11 C12 C13 C18 C19 C20".split()
snap = os.environ.get("VP_RUN_REPO")
if snap and here != "/verif":
    gm = open(os.path.join(here, "go.mod")).read()
    gm = re.sub(r"(github.com/echovault/sugardb => )\S+", r"\g<1>" + snap, gm)
    open(os.path.join(here, "go.mod"), "w").write(gm)
res = []
out = os.path.join(here, "sweep-%s-%d-%d.json" % (tier, a, b))
os.makedirs(os.path.join(here, "sweep-out"), exist_ok=True)
keep = "/dev/shm/sweep-keep"  # survives `vp stop` (which removes the snapshot)
os.makedirs(keep, exist_ok=True)
for seed in range(a, b + 1):
    for p in props:
        t0 = time.time()
        pr = subprocess.run(["./check", p, tier], cwd=here, env=dict(os.environ, VERIF_SEED=str(seed)), capture_output=True, text=True)
        lines = [l for l in pr.stdout.splitlines() if l.startswith(("VIOLATION", "DETAIL", "NOTE", "HARNESS-ERROR", "SUMMARY"))]
        r = {"prop": p, "seed": seed, "exit": pr.returncode, "wall": round(time.time() - t0, 1), "lines": lines}
        res.append(r)
        if pr.returncode != 0:
            for m in re.finditer(r"replay=(\S+)", pr.stdout):
                if os.path.exists(m.group(1)):
                    shutil.copy(m.group(1), os.path.join(here, "sweep-out", "%s-seed%d-%s" % (p, seed, os.path.basename(m.group(1)))))
                    shutil.copy(m.group(1), os.path.join(keep, "%s-seed%d-%s" % (p, seed, os.path.basename(m.group(1)))))
            print("FAIL", p, "seed", seed, "exit", pr.returncode, flush=True)
            for l in lines:
                print("   ", l[:600], flush=True)
            if pr.returncode == 2:
                print(pr.stdout[-1500:], pr.stderr[-1500:], flush=True)
        else:
            print("ok", p, "seed", seed, [l for l in lines if l.startswith("SUMMARY")][0][:160] if lines else "", flush=True)
        json.dump(res, open(out, "w"), indent=1)
bad = [r for r in res if r["exit"] != 0]
print("DONE %d runs, %d non-zero" % (len(res), len(bad)))
